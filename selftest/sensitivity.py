"""Sensitivity self-test: apply each kept mutant to a scratch copy of the repository, check it
survives the repository's own suite (optional), and require the property's quick check to report
a VIOLATION whose replay file reproduces."""
from __future__ import annotations

import glob
import os
import re
import shutil
import subprocess
import sys
import tempfile

VERIF = os.path.dirname(os.path.dirname(os.path.abspath(__file__)))
MUTANTS = os.path.join(VERIF, "selftest", "mutants")


def scratch_copy(repo: str) -> str:
    tmp = tempfile.mkdtemp(prefix="pyjelly-mut-")
    dst = os.path.join(tmp, "repo")
    shutil.copytree(repo, dst, symlinks=True,
                    ignore=shutil.ignore_patterns(".git", "__pycache__", "*.pyc", ".pytest_cache", "docs"))
    return dst


def run_suite(dst: str) -> bool:
    env = dict(os.environ, PYTHONDONTWRITEBYTECODE="1")
    env.pop("VERIF_REPO", None)
    r = subprocess.run(["/venv/bin/python", "-B", "-m", "pytest", "-q", "-x", "-p", "no:cacheprovider",
                        "--timeout=900"], cwd=dst, env=env, capture_output=True, text=True)
    tail = (r.stdout or "").strip().splitlines()[-1:] or [""]
    print(f"    suite: exit={r.returncode} {tail[0]}")
    return r.returncode == 0


def one(patch: str, with_suite: bool, runs: str | None) -> bool:
    name = os.path.basename(patch)
    cid = name.split("-", 1)[0].upper()
    repo = os.path.realpath(os.environ.get("VERIF_REPO_BASE", "/repo"))
    dst = scratch_copy(repo)
    ok = False
    try:
        r = subprocess.run(["patch", "-p1", "-s", "-d", dst, "-i", patch], capture_output=True, text=True)
        if r.returncode != 0:
            print(f"  {name}: PATCH FAILED {r.stdout} {r.stderr}")
            return False
        if with_suite and not run_suite(dst):
            print(f"  {name}: mutant is killed by the repository's own suite (still checking ours)")
        env = dict(os.environ, VERIF_REPO=dst, VERIF_NO_EVIDENCE="1")
        if not os.environ.get("VERIF_WITH_COMPILED") and os.path.basename(os.path.dirname(patch)) != "mutants_compiled":
            env["VERIF_NO_COMPILED"] = "1"      # (a mypyc build per scratch copy costs ~25 s; opt in)
        if runs:
            env["VERIF_RUNS"] = runs
        r = subprocess.run([os.path.join(VERIF, "check"), cid, "--tier", "quick"], env=env,
                           capture_output=True, text=True, cwd=VERIF)
        m = re.search(r"^VIOLATION property=(\S+) replay=(\S+)", r.stdout, re.M)
        if r.returncode != 1 or not m:
            print(f"  {name}: MISSED (exit={r.returncode})\n{r.stdout[-1500:]}\n{r.stderr[-500:]}")
            return False
        rp = m.group(2)
        r2 = subprocess.run([os.path.join(VERIF, "check"), "--replay", rp], env=env, capture_output=True,
                            text=True, cwd=VERIF)
        sigs = re.findall(r"signature=(\{.*?\}) count", r.stdout)
        if r2.returncode != 1:
            print(f"  {name}: caught but replay did not reproduce (exit={r2.returncode})\n{r2.stdout[-800:]}")
            return False
        print(f"  {name}: caught, replay reproduces; signatures={sigs[:3]}")
        ok = True
        for f in re.findall(r"replay=(\S+)", r.stdout):
            try:
                os.unlink(f)
            except OSError:
                pass
    finally:
        shutil.rmtree(os.path.dirname(dst), ignore_errors=True)
    return ok


def main(cid: str | None) -> int:
    with_suite = os.environ.get("VERIF_SUITE", "0") == "1"
    runs = os.environ.get("VERIF_MUT_RUNS")
    # mutants_compiled/: changes that only show in a mypyc build of the tree (the checks then build the scratch copy)
    pats = sorted(glob.glob(os.path.join(MUTANTS, "*.patch")) + glob.glob(os.path.join(MUTANTS + "_compiled", "*.patch")))
    if cid:
        pats = [p for p in pats if os.path.basename(p).upper().startswith(cid.upper() + "-")]
    bad = 0
    for p in pats:
        if not one(p, with_suite, runs):
            bad += 1
    print(f"sensitivity: {len(pats) - bad}/{len(pats)} mutants caught")
    return 0 if bad == 0 else 1
