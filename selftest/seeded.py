"""Self-test over the independently written breaking changes in /verif/seeded: apply each to a scratch
copy and require every check listed in its meta.json under caught_by to report a violation."""
from __future__ import annotations

import glob
import json
import os
import subprocess
import sys

VERIF = os.path.dirname(os.path.dirname(os.path.abspath(__file__)))


def main(cid):
    dirs = sorted(glob.glob(os.path.join(VERIF, "seeded", "C*-*")))
    if cid:
        dirs = [d for d in dirs if os.path.basename(d).upper().startswith(cid.upper())]
    bad = 0
    for d in dirs:
        meta = json.load(open(os.path.join(d, "meta.json")))
        want = meta.get("caught_by") or []
        if meta.get("superseded"):
            print(f"  {os.path.basename(d)}: superseded by a later repair of /repo (kept for the record)")
            continue
        if not want:
            print(f"  {os.path.basename(d)}: no check is expected to catch it ({meta.get('note', '')[:80]})")
            continue
        r = subprocess.run([sys.executable, os.path.join(VERIF, "tools", "seeded.py"), "detect", d, *want],
                           capture_output=True, text=True, cwd=VERIF)
        try:
            res = json.loads(r.stdout)
        except json.JSONDecodeError:
            print(f"  {os.path.basename(d)}: tool failed: {r.stdout[-200:]} {r.stderr[-200:]}")
            bad += 1
            continue
        missed = [c for c in want if res.get(c, {}).get("exit") != 1]
        if missed or "error" in res:
            bad += 1
            print(f"  {os.path.basename(d)}: MISSED by {missed or res}")
        else:
            print(f"  {os.path.basename(d)}: caught by {want}")
    print(f"seeded: {len(dirs) - bad}/{len(dirs)} as expected")
    return 0 if not bad else 1
