"""Determinism self-test: the same VERIF_SEED must give the same per-run event-log digests in two
fresh interpreters, with 1 worker instead of 16, and (reported separately) under another PYTHONHASHSEED."""
from __future__ import annotations

import os
import subprocess
import sys
import tempfile

VERIF = os.path.dirname(os.path.dirname(os.path.abspath(__file__)))
ALL = [f"C{i:02d}" for i in range(1, 21)]
# checks whose digests must also be equal across hash seeds (no rdflib container order in the event log)
HASHSEED_INDEPENDENT = {"C01", "C05", "C18"}   # generic-only: no rdflib container order can reach the event log


def run(cid, runs, workers, hashseed, seed, out):
    env = dict(os.environ, VERIF_RUNS=str(runs), VERIF_WORKERS=str(workers), PYTHONHASHSEED=str(hashseed),
               VERIF_SEED=str(seed), VERIF_DIGESTS=out, VERIF_NO_EVIDENCE="1")
    r = subprocess.run([os.path.join(VERIF, "check"), cid, "--tier", "quick"], env=env, capture_output=True, text=True,
                       cwd=VERIF)
    if r.returncode not in (0, 1):
        print(r.stdout[-600:], r.stderr[-600:])
    with open(out) as fh:
        return dict(line.split() for line in fh), r.returncode


def main(cid):
    ids = [cid.upper()] if cid else ALL
    runs = int(os.environ.get("VERIF_DET_RUNS", "200"))
    seeds = [int(s) for s in os.environ.get("VERIF_DET_SEEDS", "1,77").split(",")]
    bad = 0
    tmp = tempfile.mkdtemp(prefix="verif-det-")
    try:
        for c in ids:
            n = min(runs, 60) if c in ("C17", "C10", "C16", "C20") else runs
            for seed in seeds:
                a, rc1 = run(c, n, 16, 0, seed, os.path.join(tmp, "a"))
                b, rc2 = run(c, n, 16, 0, seed, os.path.join(tmp, "b"))
                s, rc3 = run(c, n, 1, 0, seed, os.path.join(tmp, "s"))
                h, rc4 = run(c, n, 16, 12345, seed, os.path.join(tmp, "h"))
                same_ab = a == b
                same_as = a == s
                same_ah = a == h
                ok = same_ab and same_as and (same_ah or c not in HASHSEED_INDEPENDENT) and len(a) == n \
                    and rc1 == rc2 == rc3
                print(f"{c} seed={seed} runs={len(a)} twice={'same' if same_ab else 'DIFFER'} "
                      f"1worker={'same' if same_as else 'DIFFER'} otherhashseed={'same' if same_ah else 'differ'} "
                      f"exit={rc1},{rc2},{rc3},{rc4} -> {'ok' if ok else 'FAIL'}")
                if not ok:
                    bad += 1
                    diff = [k for k in a if a.get(k) != b.get(k) or a.get(k) != s.get(k) or a.get(k) != h.get(k)][:5]
                    print(f"   first differing runs: {diff}")
    finally:
        import shutil
        shutil.rmtree(tmp, ignore_errors=True)
    print(f"determinism: {'all deterministic' if not bad else str(bad) + ' FAILED'}")
    return 0 if not bad else 1
