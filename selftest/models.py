"""Self-test of the reference models: (1) the independent wire codec against protobuf's own classes
(only here - the oracles never import rdf_pb2): rows produced by simkit.wire parse to the same fields with
rdf_pb2 and rows serialized by rdf_pb2 decode to the same AST; (2) reference encoder output is accepted by the
reference decoder and denotes the input, for many seeds and all knobs."""
from __future__ import annotations

import random
import sys

from simkit import repo


def pb_term_to_ast(msg, prefix, graph=False):
    which = msg.WhichOneof("graph" if graph else {"s": "subject", "p": "predicate", "o": "object"}[prefix])
    if which is None:
        return None
    v = getattr(msg, which)
    if which.endswith("_iri"):
        return ("iri", v.prefix_id, v.name_id)
    if which.endswith("_bnode"):
        return ("bnode", v)
    if which.endswith("_literal"):
        k = v.WhichOneof("literalKind")
        kind = None if k is None else (("lang", v.langtag) if k == "langtag" else ("dt", v.datatype))
        return ("lit", v.lex, kind)
    if which.endswith("_default_graph"):
        return ("default",)
    return ("triple", pb_term_to_ast(v, "s"), pb_term_to_ast(v, "p"), pb_term_to_ast(v, "o"))


def pb_row_to_ast(row):
    from simkit import wire
    k = row.WhichOneof("row")
    if k is None:
        return ("empty",)
    v = getattr(row, k)
    if k == "options":
        return ("options", {name: (getattr(v, name)) for _, (name, _) in wire.OPT_FIELDS.items()})
    if k == "triple":
        return ("triple", pb_term_to_ast(v, "s"), pb_term_to_ast(v, "p"), pb_term_to_ast(v, "o"))
    if k == "quad":
        return ("quad", pb_term_to_ast(v, "s"), pb_term_to_ast(v, "p"), pb_term_to_ast(v, "o"),
                pb_term_to_ast(v, "g", graph=True))
    if k == "graph_start":
        return ("graph_start", pb_term_to_ast(v, "g", graph=True))
    if k == "graph_end":
        return ("graph_end",)
    if k == "namespace":
        return ("namespace", v.name, ("iri", v.value.prefix_id, v.value.name_id) if v.HasField("value") else None)
    return (k, v.id, v.value)


def rand_term(rng, depth=0, graph=False):
    kinds = ["iri", "bnode", "lit"] + (["default"] if graph else []) + (["triple"] if depth < 2 and not graph else [])
    k = rng.choice(kinds)
    if k == "iri":
        return ("iri", rng.choice([0, 1, 5, 300, 4096]), rng.choice([0, 1, 7, 129, 70000]))
    if k == "bnode":
        return ("bnode", rng.choice(["", "b", "zażółć", "😀"]))
    if k == "lit":
        return ("lit", rng.choice(["", "x", "ł" * 70, "a" * 200]),
                rng.choice([None, ("lang", "en"), ("dt", 0), ("dt", 3), ("dt", 5000)]))
    if k == "default":
        return ("default",)
    return ("triple", rand_term(rng, depth + 1), rand_term(rng, depth + 1), rand_term(rng, depth + 1))


def rand_row(rng):
    from simkit import refenc
    k = rng.choice(["options", "triple", "quad", "graph_start", "graph_end", "namespace", "name", "prefix", "datatype"])
    if k == "options":
        return ("options", refenc.make_opts(rng.choice([0, 1, 2, 3]), rng.choice([0, 1, 2, 3, 4, 13, 14, 114]),
                                            rng.choice([0, 8, 4000]), rng.choice([0, 150]), rng.choice([0, 32]),
                                            rng.choice([0, 1, 2, 3]), rng.choice(["", "n", "ż" * 40]),
                                            rng.random() < 0.5, rng.random() < 0.5))
    opt = lambda t: t if rng.random() < 0.8 else None   # noqa: E731
    if k == "triple":
        return ("triple", opt(rand_term(rng)), opt(rand_term(rng)), opt(rand_term(rng)))
    if k == "quad":
        return ("quad", opt(rand_term(rng)), opt(rand_term(rng)), opt(rand_term(rng)), opt(rand_term(rng, graph=True)))
    if k == "graph_start":
        return ("graph_start", rand_term(rng, graph=True))
    if k == "graph_end":
        return ("graph_end",)
    if k == "namespace":
        return ("namespace", rng.choice(["", "ex", "zż"]), ("iri", rng.choice([0, 2]), rng.choice([0, 9])))
    return (k, rng.choice([0, 1, 200, 70000]), rng.choice(["", "v", "http://e/ł"]))


def main(_cid):
    repo.setup()
    from pyjelly import jelly
    from simkit import refdec, refenc, wire
    from simkit.kernel import Sim
    rng = random.Random(20261003)
    bad = 0
    n = 20000
    for i in range(n):
        row = rand_row(rng)
        data = wire.enc_row(row)
        msg = jelly.RdfStreamRow()
        msg.ParseFromString(data)
        back = pb_row_to_ast(msg)
        norm = row
        if row[0] == "options":
            norm = ("options", dict(row[1]))
        # explicit zero varints / empty strings have no presence in proto3 scalars: compare through a second decode
        again = wire.dec_row(msg.SerializeToString())
        mine = wire.dec_row(data)
        if mine != again or back != mine:
            bad += 1
            if bad < 5:
                print(f"  codec disagreement on {row!r}:\n    wire->pb {back!r}\n    wire->wire {mine!r}\n    pb->wire {again!r}")
    print(f"wire codec vs protobuf classes: {n - bad}/{n} rows agree")
    # frames
    fr = wire.Frame([wire.enc_row(rand_row(rng)) for _ in range(5)], [("k", b"v"), ("frame", b"\x00\x01")])
    pb = jelly.RdfStreamFrame()
    pb.ParseFromString(fr.encode())
    if len(pb.rows) != 5 or dict(pb.metadata) != {"k": b"v", "frame": b"\x00\x01"}:
        bad += 1
        print("  frame codec disagreement")
    d2 = wire.dec_frame(pb.SerializeToString(deterministic=True))
    if len(d2.rows) != 5 or d2.metadata_dict() != fr.metadata_dict():
        bad += 1
        print("  frame decode disagreement")
    # reference encoder <-> reference decoder
    from checks import c04
    m = 3000
    mb = 0
    for i in range(m):
        r2 = random.Random(f"models:{i}")
        plan = c04.gen_stream_plan(r2, r2.random() < 0.3)
        sim = Sim(rng=r2)
        try:
            c04.build_stream(plan, sim)
        except Exception as e:  # noqa: BLE001
            mb += 1
            if mb < 4:
                print(f"  model disagreement at {i}: {type(e).__name__}: {e}")
    print(f"reference encoder accepted and read back by reference decoder: {m - mb}/{m} streams")
    return 0 if not (bad or mb) else 1
