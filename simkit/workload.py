"""Seeded workload and knob generation (swarm style).  Everything returned is plain
data (tuples / dicts) so that a plan is explicit and replay never regenerates it."""
from __future__ import annotations

import random

from . import terms as T

XSD = "http://www.w3.org/2001/XMLSchema#"
ODD_STRINGS = ["", "a", "zażółć", "日本語", "😀", "a\x00b", " ", "x y", "\n", "é" * 3, "%20", "<>\"{}"]
LANGS = ["en", "en-GB", "pl", "de-CH-1996", "x-private"]
PREFIX_BASES = [
    "http://example.org/", "http://example.org/ns#", "https://w3id.org/x/", "http://a/b/c/",
    "urn:ex:", "", "http://példa.hu/", "http://ex.org/é#", "http://e/", "tag:", "http://e/😀/",
    "http://example.com/very/long/path/" + "p" * 120 + "/",
]
XSD_TYPES = [XSD + "integer", XSD + "boolean", XSD + "dateTime", XSD + "string", XSD + "double",
             "http://www.w3.org/1999/02/22-rdf-syntax-ns#langString"]


def split_iri(iri: str) -> tuple[str, str]:
    """The conventional split (last '#', else last '/'); independent re-statement."""
    i = iri.rfind("#")
    if i < 0:
        i = iri.rfind("/")
    if i < 0:
        return "", iri
    return iri[: i + 1], iri[i + 1:]


class Pools:
    def __init__(self, rng: random.Random, n_prefix: int, n_name: int, n_dt: int,
                 odd: bool = True, rdflib_safe: bool = False) -> None:
        self.rng = rng
        self.rdflib_safe = rdflib_safe
        bases = list(PREFIX_BASES)
        if rdflib_safe:
            bases = [b for b in bases if b]
        rng.shuffle(bases)
        self.prefixes = []
        i = 0
        while len(self.prefixes) < max(1, n_prefix):
            if i < len(bases):
                self.prefixes.append(bases[i])
            else:
                self.prefixes.append(f"http://gen.example/{i}/" if i % 2 else f"http://gen.example/v{i}#")
            i += 1
        self.names = []
        odd_names = ["", "n", "zażółć", "名前", "😀", "a.b", "x-y_z", "0", "long" * 40]
        if rdflib_safe:
            odd_names = ["n", "zażółć", "名前", "a.b", "x-y_z", "0", "long" * 40]
        rng.shuffle(odd_names)
        i = 0
        while len(self.names) < max(1, n_name):
            if odd and i < len(odd_names) and rng.random() < 0.5:
                self.names.append(odd_names[i])
            else:
                self.names.append(f"n{i}")
            i += 1
        self.names = list(dict.fromkeys(self.names))
        # a local name that is itself a complete separator-less IRI of this stream (urn:..., tag:...):
        # the same string then occurs as a whole-IRI name entry and as the local name of another IRI
        sepless = [p for p in self.prefixes if p and "/" not in p and "#" not in p]
        if sepless and self.names and rng.random() < 0.5:
            self.names[rng.randrange(len(self.names))] = rng.choice(sepless) + self.names[0]
            self.names = list(dict.fromkeys(self.names))
        k = 0
        while len(self.names) < max(1, n_name):
            self.names.append(f"m{k}")
            k += 1
        self.datatypes = []
        xs = list(XSD_TYPES[:5]) if not rdflib_safe else [XSD + "string"]
        rng.shuffle(xs)
        i = 0
        while len(self.datatypes) < max(1, n_dt):
            if i < len(xs) and rng.random() < 0.4:
                self.datatypes.append(xs[i])
            else:
                self.datatypes.append(f"http://dt.example/t{i}" if i % 3 else f"http://dt.example/ns#T{i}")
            i += 1
        self.bnodes = ["b0", "b1", "", "x", "Ωb", "b-2"] if not rdflib_safe else ["b0", "b1", "x", "Nb2"]
        self.lexes = list(ODD_STRINGS) + ["1", "true", "2020-01-01T00:00:00Z", "hello world"]
        if rdflib_safe:
            self.lexes = [x for x in self.lexes if "\x00" not in x]
        self.long_lex = "L" * rng.choice([130, 200, 17000])
        self.iri_cache: list[str] = []

    def iri(self) -> str:
        rng = self.rng
        if self.iri_cache and rng.random() < 0.35:
            return rng.choice(self.iri_cache)
        s = rng.choice(self.prefixes) + rng.choice(self.names)
        if self.rdflib_safe and not s:
            s = "http://e/x"
        self.iri_cache.append(s)
        return s

    def literal(self, allow_dt: bool = True) -> tuple:
        rng = self.rng
        lex = self.long_lex if rng.random() < 0.03 else rng.choice(self.lexes)
        c0 = rng.random()
        if c0 < 0.06 and self.iri_cache:
            lex = rng.choice(self.iri_cache)        # the same string as an IRI of this stream
        elif c0 < 0.12:
            lex = rng.choice(self.bnodes)           # the same string as a blank-node label
        c = rng.random()
        if c < 0.3:
            return ("lit", lex, None, None)
        if c < 0.5:
            lang = rng.choice(LANGS)
            if not self.rdflib_safe and rng.random() < 0.3:
                # same tag in another letter case: a different spelling that the round trip must keep
                # (not for rdflib, whose own literal equality ignores the case of language tags)
                lang = rng.choice([lang.upper(), lang.lower(), lang.title()])
            return ("lit", lex, lang, None)
        if not allow_dt:
            return ("lit", lex, None, None)
        return ("lit", lex, None, rng.choice(self.datatypes))


def gen_term(rng: random.Random, pools: Pools, slot: str, flags: dict, depth: int = 0) -> tuple:
    gen = flags.get("generalized", False)
    star = flags.get("rdf_star", False) and depth < flags.get("max_depth", 2)
    allow_dt = flags.get("datatypes", True)
    if slot == "g":
        kinds = ["iri", "iri", "bnode", "default", "default"]
        if gen:
            kinds.append("lit")
    elif gen:
        kinds = ["iri", "iri", "bnode", "lit"]
        if star:
            kinds.append("triple")
    elif slot == "s":
        kinds = ["iri", "iri", "bnode"] + (["triple"] if star else [])
    elif slot == "p":
        kinds = ["iri"]
    else:
        kinds = ["iri", "bnode", "lit", "lit"] + (["triple"] if star else [])
    k = rng.choice(kinds)
    if k == "iri":
        return ("iri", pools.iri())
    if k == "bnode":
        if pools.iri_cache and rng.random() < 0.04 and not pools.rdflib_safe:
            return ("bnode", rng.choice(pools.iri_cache))   # label equal to an IRI string
        return ("bnode", rng.choice(pools.bnodes))
    if k == "default":
        return T.DEFAULT
    if k == "lit":
        return pools.literal(allow_dt)
    return ("triple", gen_term(rng, pools, "s", flags, depth + 1),
            gen_term(rng, pools, "p", flags, depth + 1),
            gen_term(rng, pools, "o", flags, depth + 1))


def gen_statements(rng: random.Random, n: int, arity: int, flags: dict, pools: Pools) -> list:
    out: list = []
    recent: list[list] = [[], [], [], []]
    slots = "spog"[:arity]
    run_g = 0
    for _ in range(n):
        st = []
        for i, sl in enumerate(slots):
            c = rng.random()
            if sl == "g" and out:
                # runs of equal graph names of random length
                if run_g > 0:
                    run_g -= 1
                    st.append(out[-1][3])
                    continue
                run_g = rng.choice([0, 0, 1, 2, 4])
            if out and c < flags.get("p_repeat", 0.3):
                st.append(out[-1][i])
            elif recent[i] and c < 0.55:
                st.append(rng.choice(recent[i]))
            else:
                t = gen_term(rng, pools, sl, flags)
                recent[i].append(t)
                if len(recent[i]) > 6:
                    recent[i].pop(0)
                st.append(t)
        out.append(tuple(st))
    return out


def needs(st, prefix_enabled: bool = True, xsd_counts: bool = False) -> tuple[int, int, int]:
    """Distinct prefix / name / datatype entries one row (statement) needs at once."""
    acc: list = []
    for t in st:
        T.iris_of(t, acc)
    P, N, D = set(), set(), set()
    for kind, s in acc:
        if kind == "iri":
            if prefix_enabled:
                p, n = split_iri(s)
                P.add(p)
                N.add(n)
            else:
                N.add(s)
        elif s != T.XSD_STRING or xsd_counts:
            D.add(s)
    return len(P), len(N), len(D)


def max_needs(stmts, nss=(), prefix_enabled: bool = True, graphs_type: bool = False,
              xsd_counts: bool = False) -> tuple[int, int, int]:
    mp = mn = md = 0
    for st in stmts:
        rows = [st]
        if graphs_type and len(st) == 4:
            rows = [st[:3], (st[3],)]
        for r in rows:
            p, n, d = needs(r, prefix_enabled, xsd_counts)
            mp, mn, md = max(mp, p), max(mn, n), max(md, d)
    for _, iri in nss:
        p, n, d = needs((("iri", iri),), prefix_enabled)
        mp, mn, md = max(mp, p), max(mn, n), max(md, d)
    return mp, mn, md


def has_datatypes(stmts) -> bool:
    acc: list = []
    for st in stmts:
        for t in st:
            T.iris_of(t, acc)
    return any(k == "dt" and s != T.XSD_STRING for k, s in acc)


def pick_table_size(rng: random.Random, need: int, floor: int, allow_zero: bool) -> int:
    """A table size in the 'can hold one statement' regime, biased small."""
    lo = max(need, floor, 1)
    c = rng.random()
    if allow_zero and c < 0.12:
        return 0
    if c < 0.55:
        return lo + rng.choice([0, 0, 1, 2, 3])
    if c < 0.8:
        return lo + rng.randrange(0, 24)
    if c < 0.9:
        return rng.choice([32, 128, 150, 256])
    return rng.choice([4000, 4096, 1000])


def pool_size_for(rng: random.Random, m: int) -> int:
    if m <= 0:
        return rng.choice([1, 2, 4])
    return max(1, rng.choice([m - 1, m, m + 1, m + 2, 2 * m, 4]))


def gen_namespaces(rng: random.Random, pools: Pools, n: int, rdflib_safe: bool = False) -> list:
    out = []
    labels = ["", "ex", "a", "zż", "p0", "p1", "long_prefix_label"]
    if rdflib_safe:
        labels = ["ex", "a", "p0", "p1", "q", "lbl"]
    rng.shuffle(labels)
    used_iris = set()
    for i in range(min(n, len(labels))):
        base = rng.choice(pools.prefixes)
        iri = base if rng.random() < 0.7 else base + rng.choice(pools.names)
        if rdflib_safe:
            if not iri or iri in used_iris:
                iri = f"http://nsgen.example/{i}/"
            used_iris.add(iri)
        out.append((labels[i], iri))
    return out


STREAM_NAMES = ["", "s", "stream-1", "zażółć gęślą jaźń", "😀" * 3, "x" * 10, "n\x00ul", "y" * 140]
