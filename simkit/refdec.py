"""Reference decoder: the Jelly reader state machine written from rdf.proto's comments.

Shares no code with pyjelly.  Produces the denoted item sequence, the first spec
violation (class, frame, row) if any, and a per-row audit trace used by C19.
"""
from __future__ import annotations

from . import wire

MAX_TABLE = 4096
MIN_NAMES = 8
TRIPLES_LOGICAL = {3, 13, 1}
KNOWN_LOGICAL = {0, 1, 2, 3, 4, 13, 14, 114}


class SpecViolation(Exception):
    def __init__(self, cls: str, msg: str = "") -> None:
        super().__init__(f"{cls}: {msg}")
        self.cls = cls
        self.msg = msg


class Result:
    __slots__ = ("items", "frames_items", "item_pos", "options", "error", "audit",
                 "n_rows", "n_frames", "stats", "rows_ast")

    def __init__(self) -> None:
        self.items: list = []
        self.frames_items: list[list] = []
        self.item_pos: list[tuple[int, int]] = []
        self.options: dict | None = None
        self.error: dict | None = None
        self.audit: dict = {
            "redundant_entry": [], "explicit_entry_id": [], "missed_elision": [],
            "explicit_prefix_id": [], "explicit_name_id": [],
            "zero_entry_ids": 0, "zero_prefix_ids": 0, "zero_name_ids": 0,
            "repeated_terms": [0, 0, 0, 0], "evictions": [0, 0, 0],
            "entries": [0, 0, 0], "graph_starts": 0, "graph_ends": 0,
            "empty_prefix_iris": 0, "max_depth": 0, "options_rows": 0,
            "namespace_rows": 0, "statements": 0, "implicit_graph_close": 0,
            "graph_open_at_end": 0, "graph_start_terms": [],
        }
        self.n_rows = 0
        self.n_frames = 0
        self.stats: dict = {}
        self.rows_ast: list = []

    @property
    def ok(self) -> bool:
        return self.error is None

    def statements(self) -> list:
        return [i for i in self.items if i[0] != "ns"]

    def namespaces(self) -> list:
        return [i for i in self.items if i[0] == "ns"]


class Table:
    __slots__ = ("size", "slots", "last_assigned")

    def __init__(self, size: int) -> None:
        self.size = size
        self.slots: list = [None] * (min(size, MAX_TABLE) + 1)
        self.last_assigned = 0


class RefDecoder:
    def __init__(self, strict: bool = True, keep_rows: bool = False) -> None:
        self.strict = strict
        self.keep_rows = keep_rows
        self.res = Result()
        self.opts: dict | None = None
        self.names: Table | None = None
        self.prefixes: Table | None = None
        self.datatypes: Table | None = None
        self.last_name = 0
        self.last_prefix = 0
        self.prev: list = [None, None, None, None]
        self.graph = None
        self.graph_open = False
        self.frame_idx = -1
        self.row_idx = -1
        self.dead = False

    # ---------------------------------------------------------- driving
    def feed_frame(self, frame: wire.Frame) -> list:
        """Decode one frame; returns the items of this frame. Stops at first violation."""
        self.frame_idx += 1
        self.res.n_frames += 1
        out: list = []
        self.res.frames_items.append(out)
        if self.dead:
            return out
        for ri, rb in enumerate(frame.rows):
            self.row_idx = ri
            try:
                row = wire.dec_row(rb)
                if self.keep_rows:
                    self.res.rows_ast.append((self.frame_idx, ri, row))
                item = self.row(row, len(rb))
            except SpecViolation as e:
                self._fail(e.cls, e.msg)
                return out
            except wire.WireError as e:
                self._fail("wire", str(e))
                return out
            self.res.n_rows += 1
            if item is not None:
                out.append(item)
                self.res.items.append(item)
                self.res.item_pos.append((self.frame_idx, ri))
        return out

    def _fail(self, cls: str, msg: str) -> None:
        self.dead = True
        self.res.error = {"cls": cls, "msg": msg, "frame": self.frame_idx,
                          "row": self.row_idx, "items_before": len(self.res.items),
                          "rows_before": self.res.n_rows}

    def finish(self) -> Result:
        if not self.dead and self.opts is None and self.strict:
            self.row_idx = -1
            self._fail("missing_options", "stream has no rows")
        self.res.options = self.opts
        if self.graph_open and not self.dead:
            self.res.audit["graph_open_at_end"] = 1
        return self.res

    # ---------------------------------------------------------- rows
    def row(self, row: tuple, nbytes: int):
        k = row[0]
        if k == "empty":
            raise SpecViolation("empty_row", "row with no payload")
        if self.opts is None:
            if k != "options":
                raise SpecViolation("missing_options", f"first row is {k}")
            self.set_options(row[1])
            return None
        a = self.res.audit
        if k == "options":
            a["options_rows"] += 1
            if row[1] != self.opts:
                raise SpecViolation("options_changed", "options row repeated with changes")
            return None
        if k == "name":
            self.entry(self.names, 0, row[1], row[2])
            return None
        if k == "prefix":
            self.entry(self.prefixes, 1, row[1], row[2])
            return None
        if k == "datatype":
            self.entry(self.datatypes, 2, row[1], row[2])
            return None
        pt = self.opts["physical_type"]
        if k == "namespace":
            if self.strict and self.opts["version"] < 2:
                raise SpecViolation("namespace_in_v1", "namespace row in a version-1 stream")
            a["namespace_rows"] += 1
            iri = row[2] if row[2] is not None else ("iri", 0, 0)
            return ("ns", row[1], self.term(iri, -1, True))
        if k == "triple":
            if pt == 1:
                st = self.statement(row[1:4], 3)
                return st
            if pt == 3:
                if not self.graph_open:
                    raise SpecViolation("triple_outside_graph", "triple row with no open graph")
                st = self.statement(row[1:4], 3)
                return (*st, self.graph)
            raise SpecViolation("row_kind_forbidden", "triple row in a QUADS stream")
        if k == "quad":
            if pt != 2:
                raise SpecViolation("row_kind_forbidden", "quad row outside a QUADS stream")
            return self.statement(row[1:5], 4)
        if k == "graph_start":
            if pt != 3:
                raise SpecViolation("row_kind_forbidden", "graph_start outside a GRAPHS stream")
            if row[1] is None:
                raise SpecViolation("graph_start_without_graph", "graph_start with no graph term")
            a["graph_starts"] += 1
            a["graph_start_terms"].append(None)
            if self.graph_open:
                a["implicit_graph_close"] += 1
            self.graph = self.term(row[1], -1, True)
            a["graph_start_terms"][-1] = self.graph
            self.graph_open = True
            return None
        if k == "graph_end":
            if pt != 3:
                raise SpecViolation("row_kind_forbidden", "graph_end outside a GRAPHS stream")
            if self.strict and not self.graph_open:
                raise SpecViolation("graph_end_without_start", "graph_end with no open graph")
            a["graph_ends"] += 1
            self.graph_open = False
            self.graph = None
            return None
        raise SpecViolation("unknown_row", k)

    def set_options(self, o: dict) -> None:
        self.res.audit["options_rows"] += 1
        pt = o["physical_type"]
        if pt not in (1, 2, 3):
            raise SpecViolation("bad_physical_type", f"physical type {pt}")
        v = o["version"]
        if v > 2:
            raise SpecViolation("bad_version", f"version {v}")
        if self.strict and v < 1:
            raise SpecViolation("bad_version", f"version {v}")
        if o["max_name_table_size"] < MIN_NAMES:
            raise SpecViolation("name_table_too_small", str(o["max_name_table_size"]))
        for key in ("max_name_table_size", "max_prefix_table_size", "max_datatype_table_size"):
            if o[key] > MAX_TABLE:
                raise SpecViolation("table_too_large", f"{key}={o[key]}")
        lt = o["logical_type"]
        if lt not in KNOWN_LOGICAL:
            raise SpecViolation("bad_logical_type", str(lt))
        if lt != 0 and ((pt == 1) != (lt in TRIPLES_LOGICAL)):
            raise SpecViolation("type_mismatch", f"physical {pt} logical {lt}")
        self.opts = o
        self.names = Table(o["max_name_table_size"])
        self.prefixes = Table(o["max_prefix_table_size"])
        self.datatypes = Table(o["max_datatype_table_size"])

    def entry(self, table: Table, ti: int, eid: int, value: str) -> None:
        a = self.res.audit
        pos = (self.frame_idx, self.row_idx)
        a["entries"][ti] += 1
        if eid == 0:
            a["zero_entry_ids"] += 1
            idx = table.last_assigned + 1
        else:
            idx = eid
            if eid == table.last_assigned + 1:
                a["explicit_entry_id"].append((ti, *pos))
        if idx < 1 or idx > table.size:
            raise SpecViolation("entry_id_out_of_range", f"table {ti} id {idx} size {table.size}")
        for j in range(1, len(table.slots)):
            if table.slots[j] == value:
                a["redundant_entry"].append((ti, *pos, value))
                break
        if table.slots[idx] is not None:
            a["evictions"][ti] += 1
        table.slots[idx] = value
        table.last_assigned = idx

    # ---------------------------------------------------------- terms
    def statement(self, slots: tuple, n: int) -> tuple:
        a = self.res.audit
        a["statements"] += 1
        out = []
        for i in range(n):
            t = slots[i]
            if t is None:
                p = self.prev[i]
                if p is None:
                    raise SpecViolation("repeated_without_previous", f"slot {i}")
                a["repeated_terms"][i] += 1
                out.append(p)
            else:
                r = self.term(t, i, False)
                if self.prev[i] is not None and self.prev[i] == r:
                    a["missed_elision"].append((i, self.frame_idx, self.row_idx))
                self.prev[i] = r
                out.append(r)
        return tuple(out)

    def term(self, t: tuple, slot: int, nested: bool, depth: int = 0):
        k = t[0]
        a = self.res.audit
        if k == "iri":
            pid, nid = t[1], t[2]
            pos = (self.frame_idx, self.row_idx)
            if nid == 0:
                a["zero_name_ids"] += 1
                n = self.last_name + 1
            else:
                n = nid
                if nid == self.last_name + 1:
                    a["explicit_name_id"].append(pos)
            if n < 1 or n > self.names.size:
                raise SpecViolation("name_ref_out_of_range", f"name id {n} size {self.names.size}")
            name = self.names.slots[n]
            if name is None:
                raise SpecViolation("name_ref_unfilled", f"name id {n}")
            self.last_name = n
            if pid == 0:
                a["zero_prefix_ids"] += 1
                p = self.last_prefix
            else:
                p = pid
                if self.prefixes.size == 0:
                    raise SpecViolation("prefix_ref_table_disabled", f"prefix id {pid}")
                if pid == self.last_prefix:
                    a["explicit_prefix_id"].append(pos)
            if p == 0:
                prefix = ""
                a["empty_prefix_iris"] += 1
            else:
                if p > self.prefixes.size:
                    raise SpecViolation("prefix_ref_out_of_range", f"prefix id {p} size {self.prefixes.size}")
                prefix = self.prefixes.slots[p]
                if prefix is None:
                    raise SpecViolation("prefix_ref_unfilled", f"prefix id {p}")
                self.last_prefix = p
            return ("iri", prefix + name)
        if k == "bnode":
            return ("bnode", t[1])
        if k == "default":
            return ("default",)
        if k == "lit":
            kind = t[2]
            if kind is None:
                return ("lit", t[1], None, None)
            if kind[0] == "lang":
                if kind[1] == "":
                    return ("lit", t[1], None, None)
                return ("lit", t[1], kind[1], None)
            d = kind[1]
            if d == 0:
                raise SpecViolation("datatype_zero", "datatype reference 0")
            if self.datatypes.size == 0:
                raise SpecViolation("datatype_table_disabled", f"datatype id {d}")
            if d > self.datatypes.size:
                raise SpecViolation("datatype_ref_out_of_range", f"datatype id {d} size {self.datatypes.size}")
            dt = self.datatypes.slots[d]
            if dt is None:
                raise SpecViolation("datatype_ref_unfilled", f"datatype id {d}")
            return ("lit", t[1], None, dt)
        if k == "triple":
            if depth + 1 > a["max_depth"]:
                a["max_depth"] = depth + 1
            parts = []
            for i in (1, 2, 3):
                if t[i] is None:
                    raise SpecViolation("repeated_in_quoted", f"quoted triple slot {i - 1} unset")
                parts.append(self.term(t[i], -1, True, depth + 1))
            return ("triple", *parts)
        raise SpecViolation("unknown_term", k)


def decode_frames(frames: list[wire.Frame], strict: bool = True, keep_rows: bool = False) -> Result:
    d = RefDecoder(strict=strict, keep_rows=keep_rows)
    for f in frames:
        d.feed_frame(f)
    return d.finish()


def decode_stream(buf: bytes, delimited: bool, strict: bool = True, keep_rows: bool = False) -> Result:
    try:
        frames = wire.read_stream(buf, delimited)
    except wire.WireError as e:
        r = Result()
        r.error = {"cls": "wire", "msg": str(e), "frame": -1, "row": -1,
                   "items_before": 0, "rows_before": 0}
        return r
    return decode_frames(frames, strict=strict, keep_rows=keep_rows)
