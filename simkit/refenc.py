"""Reference encoder: a foreign Jelly producer whose every legal degree of freedom is a
tape decision (``sim.choose``).  With an all-zero tape it produces the most conventional
encoding.  Shares no code with pyjelly.

encode(items, opts, sim, knobs) -> list[wire.Frame]
  items : neutral statements (3- or 4-tuples) and ("ns", prefix, iri_string)
  opts  : options dict as in wire.OPT_FIELDS
  knobs : {"weird": 0..3 intensity, "naive": bool, "frame_rows": int, ...}
"""
from __future__ import annotations

from . import wire
from .kernel import HarnessError, Sim
from . import terms as T


class EncTable:
    def __init__(self, size: int) -> None:
        self.size = size
        self.slots: list = [None] * (size + 1)       # 1-based
        self.index: dict[str, int] = {}
        self.order: list[int] = []                   # LRU order: least recent first
        self.last_assigned = 0

    def touch(self, idx: int) -> None:
        if idx in self.order:
            self.order.remove(idx)
        self.order.append(idx)


class RefEncoder:
    def __init__(self, opts: dict, sim: Sim, knobs: dict | None = None) -> None:
        self.o = opts
        self.sim = sim
        k = dict(knobs or {})
        self.naive = bool(k.get("naive"))
        self.weird = 0 if self.naive else int(k.get("weird", 1))
        self.policy = k.get("evict", "lru")
        self.names = EncTable(opts["max_name_table_size"])
        self.prefixes = EncTable(opts["max_prefix_table_size"])
        self.datatypes = EncTable(opts["max_datatype_table_size"])
        self.last_name = 0
        self.last_prefix = 0
        self.prev: list = [None, None, None, None]
        self.rows: list[bytes] = []
        self.graph_open = False
        self.cur_graph = None
        self.stats: dict[str, int] = {}
        self.splits: dict[str, tuple[str, str]] = {}

    def stat(self, k: str) -> None:
        self.stats[k] = self.stats.get(k, 0) + 1

    def maybe(self, num: int, den: int, label: str) -> bool:
        """A deviation from the conventional encoding, taken only when weird > 0."""
        if self.weird <= 0:
            return False
        return self.sim.flip(num * self.weird, den, label)

    # ------------------------------------------------------------ splitting
    def split(self, iri: str) -> tuple[str, str]:
        if self.prefixes.size == 0:
            return "", iri
        if self.naive:
            return conventional_split(iri)
        if iri in self.splits and not self.maybe(1, 12, "resplit"):
            return self.splits[iri]
        p, n = conventional_split(iri)
        if self.maybe(1, 10, "split"):
            cut = self.sim.choose(len(iri) + 1, "splitpos")
            p, n = iri[:cut], iri[cut:]
            self.stat("odd_split")
        self.splits[iri] = (p, n)
        return p, n

    # ------------------------------------------------------------ tables
    def ensure(self, table: EncTable, kind: str, value: str, pinned: set[int]) -> int:
        """Make ``value`` resident; emit an entry row if needed. Returns its slot."""
        idx = table.index.get(value)
        if idx is not None and not self.naive:
            if self.maybe(1, 40, "redundant"):
                self.emit_entry(table, kind, idx, value)     # redundant re-definition, same slot
                self.stat("redundant_entry")
            table.touch(idx)
            pinned.add(idx)
            return idx
        if idx is not None and self.naive:
            # naive baseline: one entry per use (re-sent in place)
            self.emit_entry(table, kind, idx, value)
            table.touch(idx)
            pinned.add(idx)
            return idx
        free = [i for i in range(1, table.size + 1) if table.slots[i] is None]
        if free:
            idx = free[0]
            if len(free) > 1 and self.maybe(1, 12, "freeslot"):
                idx = free[self.sim.choose(len(free), "freeidx")]
                self.stat("nonsequential_slot")
        else:
            cands = [i for i in table.order if i not in pinned]
            if not cands:
                raise HarnessError(f"{kind} table of size {table.size} cannot hold one row's entries")
            pol = self.policy
            if pol == "lru":
                idx = cands[0]
            elif pol == "mru":
                idx = cands[-1]
                self.stat("non_lru_eviction")
            elif pol == "fifo":
                idx = min(cands)
                self.stat("non_lru_eviction")
            else:
                idx = cands[self.sim.choose(len(cands), "evict")]
                self.stat("non_lru_eviction")
            old = table.slots[idx]
            if old is not None:
                # the same string may be resident in another slot after a duplicate definition
                if table.index.get(old) == idx:
                    del table.index[old]
            self.stat("eviction")
        table.slots[idx] = value
        table.index[value] = idx
        table.touch(idx)
        pinned.add(idx)
        self.emit_entry(table, kind, idx, value)
        return idx

    def emit_entry(self, table: EncTable, kind: str, idx: int, value: str) -> None:
        eid = idx
        if idx == table.last_assigned + 1 and not self.naive:
            if self.maybe(1, 8, "explicit_entry_id"):
                self.stat("explicit_entry_id")
            else:
                eid = 0
        table.last_assigned = idx
        self.rows.append(wire.enc_row((kind, eid, value)))

    # ------------------------------------------------------------ terms
    def collect(self, t, acc: list) -> None:
        k = t[0]
        if k == "iri":
            acc.append(("iri", t[1]))
        elif k == "lit":
            if t[3] and not t[2]:
                acc.append(("dt", t[3]))
        elif k == "triple":
            for x in t[1:4]:
                self.collect(x, acc)

    def prepare(self, terms: list) -> dict:
        """Emit the entry rows one row needs; returns resolution maps."""
        acc: list = []
        for t in terms:
            if t is not None:
                self.collect(t, acc)
        pinned_p: set[int] = set()
        pinned_n: set[int] = set()
        pinned_d: set[int] = set()
        res = {"iri": {}, "dt": {}}
        # pin what is already resident first so that it cannot be evicted for a newcomer
        plan = []
        for kind, s in acc:
            if kind == "iri":
                if s in res["iri"]:
                    continue
                p, n = self.split(s)
                res["iri"][s] = (p, n)
                plan.append(("iri", p, n))
            else:
                if s in res["dt"]:
                    continue
                res["dt"][s] = True
                plan.append(("dt", s))
        if self.prefixes.size:
            np_ = len({i[1] for i in plan if i[0] == "iri"})
            nn_ = len({i[2] for i in plan if i[0] == "iri"})
            if np_ > self.prefixes.size or nn_ > self.names.size:
                # the chosen split points do not fit one row into the tables: fall back to the
                # conventional split for this row (the workload guarantees that one fits)
                plan2 = []
                for item in plan:
                    if item[0] == "iri":
                        iri = item[1] + item[2]
                        p, n = conventional_split(iri)
                        res["iri"][iri] = (p, n)
                        self.splits[iri] = (p, n)
                        plan2.append(("iri", p, n))
                    else:
                        plan2.append(item)
                plan = plan2
        for item in plan:
            if item[0] == "iri":
                _, p, n = item
                if self.prefixes.size and p in self.prefixes.index and not (p == "" and self.last_prefix == 0):
                    pinned_p.add(self.prefixes.index[p])
                if n in self.names.index:
                    pinned_n.add(self.names.index[n])
            elif item[1] in self.datatypes.index:
                pinned_d.add(self.datatypes.index[item[1]])
        slots = {"p": {}, "n": {}, "d": {}}
        for item in plan:
            if item[0] == "iri":
                _, p, n = item
                if self.prefixes.size == 0:
                    slots["p"][p] = 0
                elif p == "" and p not in self.prefixes.index and self.can_skip_empty_prefix(plan):
                    slots["p"][p] = 0
                else:
                    slots["p"][p] = self.ensure(self.prefixes, "prefix", p, pinned_p)
                slots["n"][n] = self.ensure(self.names, "name", n, pinned_n)
            else:
                slots["d"][item[1]] = self.ensure(self.datatypes, "datatype", item[1], pinned_d)
        res["slots"] = slots
        return res

    def can_skip_empty_prefix(self, plan: list) -> bool:
        """prefix_id 0 denotes the empty prefix only while no prefix was ever referenced
        and none is referenced earlier in this row."""
        if self.last_prefix != 0:
            return False
        for item in plan:
            if item[0] == "iri":
                if item[1] != "":
                    return False
        return True

    def enc_term(self, t, res: dict):
        k = t[0]
        if k == "iri":
            p, n = res["iri"][t[1]]
            ps = res["slots"]["p"][p]
            ns = res["slots"]["n"][n]
            # name id
            if ns == self.last_name + 1 and not self.naive and not self.maybe(1, 8, "explicit_name"):
                nid = 0
            else:
                nid = ns
                if ns == self.last_name + 1:
                    self.stat("explicit_name_id")
            self.last_name = ns
            # prefix id
            if ps == 0:
                if self.last_prefix != 0 and self.prefixes.size:
                    raise HarnessError("empty prefix without entry after a prefix was used")
                pid = 0
            else:
                if ps == self.last_prefix and not self.naive and not self.maybe(1, 8, "explicit_prefix"):
                    pid = 0
                else:
                    pid = ps
                    if ps == self.last_prefix:
                        self.stat("explicit_prefix_id")
                self.last_prefix = ps
            return ("iri", pid, nid)
        if k == "bnode":
            return ("bnode", t[1])
        if k == "default":
            return ("default",)
        if k == "lit":
            if t[2]:
                return ("lit", t[1], ("lang", t[2]))
            if t[3]:
                return ("lit", t[1], ("dt", res["slots"]["d"][t[3]]))
            return ("lit", t[1], None)
        if k == "triple":
            return ("triple", self.enc_term(t[1], res), self.enc_term(t[2], res), self.enc_term(t[3], res))
        raise HarnessError(f"cannot encode {t!r}")

    # ------------------------------------------------------------ rows
    def options_row(self) -> None:
        self.rows.append(wire.enc_row(("options", self.o)))

    def statement(self, st: tuple) -> None:
        pt = self.o["physical_type"]
        if pt == 3:
            g = st[3]
            if not self.graph_open or g != self.cur_graph or self.maybe(1, 30, "regraph"):
                if self.graph_open and not self.maybe(1, 4, "elide_graph_end"):
                    self.rows.append(wire.enc_row(("graph_end",)))
                elif self.graph_open:
                    self.stat("elided_graph_end")
                res = self.prepare([g])
                self.rows.append(wire.enc_row(("graph_start", self.enc_term(g, res))))
                self.graph_open = True
                self.cur_graph = g
            terms = list(st[:3])
        else:
            terms = list(st)
        use = []
        for i, t in enumerate(terms):
            rep = self.prev[i] is not None and self.prev[i] == t and not self.naive
            if rep and self.maybe(1, 8, "unrepeat"):
                rep = False
                self.stat("unrepeated_equal_term")
            use.append(None if rep else t)
        res = self.prepare(use)
        enc = [None if t is None else self.enc_term(t, res) for t in use]
        for i, t in enumerate(terms):
            self.prev[i] = t
        if pt == 2:
            self.rows.append(wire.enc_row(("quad", *enc)))
        else:
            self.rows.append(wire.enc_row(("triple", *enc)))

    def namespace(self, name: str, iri: str) -> None:
        res = self.prepare([("iri", iri)])
        self.rows.append(wire.enc_row(("namespace", name, self.enc_term(("iri", iri), res))))

    def finish(self) -> None:
        if self.graph_open and not self.maybe(1, 6, "elide_last_graph_end"):
            self.rows.append(wire.enc_row(("graph_end",)))
        self.graph_open = False


def conventional_split(iri: str) -> tuple[str, str]:
    i = iri.rfind("#")
    if i < 0:
        i = iri.rfind("/")
    if i < 0:
        return "", iri
    return iri[: i + 1], iri[i + 1:]


def encode_rows(items: list, opts: dict, sim: Sim, knobs: dict | None = None):
    """Return (rows, boundaries, stats): row bytes and the indices at which each item's
    row group ends (a frame may be cut only there or anywhere - both are legal)."""
    enc = RefEncoder(opts, sim, knobs)
    enc.options_row()
    ends = [len(enc.rows)]
    for it in items:
        if it[0] == "ns":
            enc.namespace(it[1], it[2])
        else:
            enc.statement(it)
        ends.append(len(enc.rows))
    enc.finish()
    if ends[-1] != len(enc.rows):
        ends.append(len(enc.rows))
    return enc.rows, ends, enc.stats


def frame_up(rows: list[bytes], sim: Sim, knobs: dict | None, opts_row: bytes | None = None,
             delimited: bool = True) -> list[wire.Frame]:
    """Cut the row sequence into frames by tape decisions; add empty / metadata frames."""
    k = knobs or {}
    weird = 0 if k.get("naive") else int(k.get("weird", 1))
    if not delimited:
        return [wire.Frame(list(rows))]
    target = int(k.get("frame_rows", 0)) or len(rows) or 1
    frames: list[wire.Frame] = []
    cur = wire.Frame()
    if weird and k.get("leading_empty") and sim.flip(1, 3, "lead_empty"):
        for _ in range(1 + sim.choose(3, "n_lead")):
            frames.append(wire.Frame([], metadata_for(sim, len(frames)) if sim.flip(1, 2, "md") else []))
    for i, r in enumerate(rows):
        cur.rows.append(r)
        cut = len(cur.rows) >= target
        if weird and sim.flip(weird, 12, "cut"):
            cut = True
        if cut and i < len(rows) - 1:
            if weird and sim.flip(weird, 10, "md"):
                cur.metadata = metadata_for(sim, len(frames))
            frames.append(cur)
            cur = wire.Frame()
            if weird and sim.flip(weird, 16, "empty_frame"):
                frames.append(wire.Frame([], metadata_for(sim, len(frames)) if sim.flip(1, 2, "md") else []))
            if weird and opts_row is not None and sim.flip(weird, 14, "repeat_options"):
                cur.rows.append(opts_row)
    if weird and sim.flip(weird, 10, "md"):
        cur.metadata = metadata_for(sim, len(frames))
    frames.append(cur)
    if weird and sim.flip(weird, 16, "trailing_empty"):
        frames.append(wire.Frame([]))
    avoid_ambiguous_leading(frames)
    return frames


def avoid_ambiguous_leading(frames: list) -> None:
    """Domain exclusion shared with C08: a first frame that carries metadata but no rows and is exactly
    10 bytes long starts with 0A 7A .., which the documented three-byte heuristic (and any reader that
    must guess the framing) cannot tell from a non-delimited stream whose first row is 122 bytes long.
    The property texts restrict themselves to streams whose first frame is empty or starts with a row."""
    if frames and not frames[0].rows and frames[0].metadata and len(frames[0].encode()) == 10:
        k, v = frames[0].metadata[-1]
        frames[0].metadata[-1] = (k, v + b"\x00")


def metadata_for(sim: Sim, i: int) -> list[tuple[str, bytes]]:
    return [("frame", str(i).encode()), ("k" + str(sim.choose(3, "mdk")), bytes([sim.choose(256, "mdv")]))][: 1 + sim.choose(2, "mdn")]


def encode(items: list, opts: dict, sim: Sim, knobs: dict | None = None, delimited: bool = True):
    """Full stream: returns (bytes, frames, stats)."""
    rows, ends, stats = encode_rows(items, opts, sim, knobs)
    frames = frame_up(rows, sim, knobs, opts_row=rows[0], delimited=delimited)
    return wire.write_stream(frames, delimited), frames, stats


def make_opts(physical: int, logical: int = 0, names: int = 4000, prefixes: int = 150, datatypes: int = 32,
              version: int = 1, name: str = "", generalized: bool = False, star: bool = False) -> dict:
    return {"stream_name": name, "physical_type": physical, "generalized_statements": generalized,
            "rdf_star": star, "max_name_table_size": names, "max_prefix_table_size": prefixes,
            "max_datatype_table_size": datatypes, "logical_type": logical, "version": version}
