"""Neutral (semantic) term model and converters to/from the two integrations.

  ("iri", s) | ("bnode", s) | ("lit", lex, lang|None, dt|None)
  | ("triple", s, p, o) | ("default",)

A datatype equal to xsd:string is normalised to None (C01: same term).
Statements are tuples of 3 or 4 terms; namespace declarations ("ns", prefix, iri).
"""
from __future__ import annotations

XSD_STRING = "http://www.w3.org/2001/XMLSchema#string"
DEFAULT = ("default",)


def norm(t):
    """Normalise a semantic term (xsd:string == plain; '' langtag == none)."""
    if t is None:
        return None
    k = t[0]
    if k == "lit":
        lang = t[2] or None
        dt = t[3] or None
        if dt == XSD_STRING:
            dt = None
        if lang:
            dt = None
        return ("lit", t[1], lang, dt)
    if k == "triple":
        return ("triple", norm(t[1]), norm(t[2]), norm(t[3]))
    return tuple(t)


def norm_stmt(st):
    return tuple(norm(t) for t in st)


def to_json(t):
    if t is None:
        return None
    if isinstance(t, tuple):
        return [to_json(x) for x in t]
    return t


def from_json(j):
    if isinstance(j, list):
        return tuple(from_json(x) for x in j)
    return j


def term_depth(t) -> int:
    if t[0] == "triple":
        return 1 + max(term_depth(t[1]), term_depth(t[2]), term_depth(t[3]))
    return 0


def iris_of(t, out: list) -> None:
    """IRI strings and datatypes in depth-first order: appends ('iri', s) / ('dt', s)."""
    k = t[0]
    if k == "iri":
        out.append(("iri", t[1]))
    elif k == "lit":
        if t[3] and not t[2]:
            out.append(("dt", t[3]))
    elif k == "triple":
        iris_of(t[1], out)
        iris_of(t[2], out)
        iris_of(t[3], out)


# ------------------------------------------------------------------ generic
class OtherStr(str):
    """A str subclass that compares and hashes on its own terms, the way rdflib.URIRef / rdflib.Literal do
    (URIRef("x") != "x", different hash): the text a caller takes from a vocabulary constant or another
    library instead of typing it."""
    __slots__ = ()

    def __eq__(self, other):
        return type(other) is OtherStr and str.__eq__(self, other)

    def __ne__(self, other):
        return not self.__eq__(other)

    def __hash__(self):
        return hash(("OtherStr", str.__str__(self)))

    def __str__(self):
        # like a (str, Enum) member: str() names the member, the character content is something else
        return "OtherStr." + str.__str__(self)[:8]


class AlternateSpelling:
    """Every second occurrence of a string is handed over as an OtherStr of the same text."""

    def __init__(self):
        self.seen: dict = {}

    def __call__(self, s):
        if s is None:
            return None
        n = self.seen.get(s, 0)
        self.seen[s] = n + 1
        return OtherStr(s) if n % 2 == 1 else s


def to_generic(t, w=None):
    from pyjelly.integrations.generic import generic_sink as gs
    k = t[0]
    if w is None:
        w = _same
    if k == "iri":
        return gs.IRI(w(t[1]))
    if k == "bnode":
        return gs.BlankNode(w(t[1]))
    if k == "lit":
        return gs.Literal(t[1], w(t[2]), w(t[3]))
    if k == "triple":
        return gs.Triple(to_generic(t[1], w), to_generic(t[2], w), to_generic(t[3], w))
    if k == "default":
        return gs.DefaultGraph
    raise ValueError(t)


def _same(s):
    return s


def stmt_to_generic(st, w=None):
    from pyjelly.integrations.generic import generic_sink as gs
    if len(st) == 3:
        return gs.Triple(*(to_generic(t, w) for t in st))
    return gs.Quad(*(to_generic(t, w) for t in st))


def from_generic(o):
    from pyjelly.integrations.generic import generic_sink as gs
    if isinstance(o, gs.IRI):
        return ("iri", o._iri)
    if isinstance(o, gs.BlankNode):
        return ("bnode", o._identifier)
    if isinstance(o, gs.Literal):
        return norm(("lit", o._lex, o._langtag, o._datatype))
    if isinstance(o, gs.Triple):
        return ("triple", from_generic(o.s), from_generic(o.p), from_generic(o.o))
    if o is gs.DefaultGraph:
        return DEFAULT
    return ("alien", repr(o))


def item_from_generic(o):
    from pyjelly.integrations.generic import generic_sink as gs
    if isinstance(o, gs.Prefix):
        return ("ns", o.prefix, from_generic(o.iri))
    if isinstance(o, (gs.Triple, gs.Quad)):
        return tuple(from_generic(x) for x in o)
    return ("alien", repr(o))


# ------------------------------------------------------------------ rdflib
def to_rdflib(t):
    import rdflib
    from rdflib.graph import DATASET_DEFAULT_GRAPH_ID
    k = t[0]
    if k == "iri":
        return rdflib.URIRef(t[1])
    if k == "bnode":
        return rdflib.BNode(t[1])
    if k == "lit":
        return rdflib.Literal(t[1], lang=t[2], datatype=t[3])
    if k == "default":
        return DATASET_DEFAULT_GRAPH_ID
    raise ValueError(t)


def from_rdflib_raw(o, graph_slot: bool = False):
    """Like from_rdflib but without normalising xsd:string away (two Python-level distinct literals
    stay distinct; needed when the *encoding* of corresponding inputs is compared)."""
    import rdflib
    if isinstance(o, rdflib.Literal):
        return ("lit", str(o), o.language or None, str(o.datatype) if o.datatype else None)
    return from_rdflib(o, graph_slot)


def from_rdflib(o, graph_slot: bool = False):
    import rdflib
    from rdflib.graph import DATASET_DEFAULT_GRAPH_ID, Graph
    if isinstance(o, Graph):
        o = o.identifier
    if graph_slot and o == DATASET_DEFAULT_GRAPH_ID:
        return DEFAULT
    if o is None:
        return ("alien", "None")
    if isinstance(o, rdflib.URIRef):
        return ("iri", str(o))
    if isinstance(o, rdflib.BNode):
        return ("bnode", str(o))
    if isinstance(o, rdflib.Literal):
        return norm(("lit", str(o), o.language, str(o.datatype) if o.datatype else None))
    return ("alien", repr(o))


def item_from_rdflib(o):
    from pyjelly.integrations.rdflib import parse as rp
    if isinstance(o, rp.Prefix):
        return ("ns", o.prefix, from_rdflib(o.iri))
    if isinstance(o, tuple) and len(o) == 3:
        return tuple(from_rdflib(x) for x in o)
    if isinstance(o, tuple) and len(o) == 4:
        return (from_rdflib(o[0]), from_rdflib(o[1]), from_rdflib(o[2]),
                from_rdflib(o[3], graph_slot=True))
    return ("alien", repr(o))


def stmt_to_rdflib(st):
    from pyjelly.integrations.rdflib import parse as rp
    if len(st) == 3:
        return rp.Triple(*(to_rdflib(t) for t in st))
    return rp.Quad(*(to_rdflib(t) for t in st))
