"""The simulated byte channel and its front ends.

A ``Pipe`` is a byte FIFO owned by the simulator.  Readers see it through one of the
front ends below; how many bytes each raw read returns is a tape decision.  When a
reader finds the pipe empty and the producer has not finished, the pipe calls its
``demand`` hook (nested stepping of producer tasks); if nobody can run that is a
deadlock, reported to the caller as ``Deadlock``.
"""
from __future__ import annotations

import gzip
import io

from .kernel import Deadlock, Sim


class Pipe:
    def __init__(self, sim: Sim, data: bytes | None = None) -> None:
        self.sim = sim
        self.buf = bytearray(data or b"")
        self.rpos = 0
        self.eof = data is not None
        self.demand = None          # callable() -> bool: made progress?
        self.cut_at: int | None = None
        self.reset_at: int | None = None
        self.raw_reads = 0
        self.read_cap: int | None = None
        self.policy = "tape"
        self.first_reads: list[int] = []
        self.on_read = None

    # producer side
    def write(self, b: bytes) -> int:
        self.buf += b
        self.sim.event("write", len(b))
        return len(b)

    def flush(self) -> None:
        pass

    def close_write(self) -> None:
        self.eof = True
        self.sim.event("eof_w")

    def available(self) -> int:
        end = len(self.buf)
        if self.cut_at is not None and self.cut_at < end:
            end = self.cut_at
        if self.reset_at is not None and self.reset_at < end:
            end = self.reset_at
        return max(0, end - self.rpos)

    def at_end(self) -> bool:
        if self.cut_at is not None and self.rpos >= self.cut_at:
            return True
        return self.eof and self.rpos >= len(self.buf)

    # consumer side
    def take(self, maxn: int) -> bytes:
        """One raw read: returns 1..maxn bytes, b'' at EOF; may step producers."""
        sim = self.sim
        self.raw_reads += 1
        if self.read_cap is not None and self.raw_reads > self.read_cap:
            raise Deadlock("raw read cap exceeded", {"kind": "read_cap"})
        while True:
            avail = self.available()
            if avail:
                break
            if self.reset_at is not None and self.rpos >= self.reset_at:
                sim.fault("reset")
                sim.event("reset", self.rpos)
                raise ConnectionResetError("simulated connection reset")
            if self.at_end():
                sim.event("read", maxn, 0)
                return b""
            if self.demand is None or not self.demand():
                sim.event("deadlock", self.rpos)
                raise Deadlock("reader needs bytes nobody will produce",
                               {"kind": "starved", "rpos": self.rpos})
        n = min(maxn, avail)
        k = self.pick(n)
        out = bytes(self.buf[self.rpos:self.rpos + k])
        self.rpos += k
        if len(self.first_reads) < 4:
            self.first_reads.append(k)
        if k < maxn:
            sim.fault("short_read")
        sim.event("read", maxn, k)
        if self.on_read is not None:
            self.on_read(self.rpos)
        return out

    def pick(self, n: int) -> int:
        if n <= 1:
            return n
        pol = self.policy
        if pol == "full":
            return n
        if pol.startswith("chunk:"):
            return min(n, int(pol[6:]))      # a transport that delivers at most k bytes per read
        if pol == "one":
            return 1
        lo = 1
        if pol == "safe" and self.rpos == 0:
            # everything but C09: the first raw read delivers the 3 header bytes at once
            lo = min(3, n)
        c = self.sim.choose(8, "read")
        if c == 0:
            return n
        if c <= 3:
            return max(lo, min(c, n))
        return max(lo, 1 + self.sim.choose(n, "readn"))


class RawDribble(io.RawIOBase):
    """Non-seekable raw source (socket / pipe / chunked HTTP body)."""

    def __init__(self, pipe: Pipe, at_least: int = 1) -> None:
        super().__init__()
        self.pipe = pipe
        self.at_least = at_least

    def readable(self) -> bool:
        return True

    def seekable(self) -> bool:
        return False

    def readinto(self, b) -> int:
        data = self.pipe.take(len(b))
        while data and len(data) < min(self.at_least, len(b)):
            more = self.pipe.take(len(b) - len(data))
            if not more:
                break
            data += more
        n = len(data)
        b[:n] = data
        return n


class NonBlockingRaw(RawDribble):
    """Raw source in non-blocking mode (O_NONBLOCK pipe, socket with setblocking(False)): when nothing has
    arrived yet a read answers None - "no data yet", which is not end of input.  The tape decides when."""

    def readinto(self, b):
        if not self.pipe.at_end() and self.pipe.sim.flip(1, 4, "no_data_yet"):
            self.pipe.sim.fault("no_data_yet")
            self.pipe.sim.event("read_none")
            return None
        return super().readinto(b)


class DuckBody(io.IOBase):
    """HTTP-response-body style source (urllib3 / botocore): derives from io.IOBase only, not seekable,
    read(amt) returns whatever the current transfer chunk holds (a short read), readinto() available."""

    def __init__(self, pipe: Pipe) -> None:
        super().__init__()
        self.pipe = pipe

    def readable(self) -> bool:
        return True

    def seekable(self) -> bool:
        return False

    def read(self, amt: int = -1) -> bytes:
        if amt is None or amt < 0:
            out = bytearray()
            while True:
                chunk = self.pipe.take(1 << 16)
                if not chunk:
                    return bytes(out)
                out += chunk
        if amt == 0:
            return b""
        return self.pipe.take(amt)

    def readinto(self, b) -> int:
        data = self.pipe.take(len(b))
        n = len(data)
        b[:n] = data
        return n


class AutoCloseRaw(io.RawIOBase):
    """Raw source that reports closed as soon as it has handed out its last byte - the default behaviour of
    urllib3.HTTPResponse (requests.get(..., stream=True).raw): the connection is released with the last byte."""

    def __init__(self, pipe: Pipe) -> None:
        super().__init__()
        self.pipe = pipe

    def readable(self) -> bool:
        return True

    def seekable(self) -> bool:
        return False

    def readinto(self, b) -> int:
        data = self.pipe.take(len(b))
        n = len(data)
        b[:n] = data
        if self.pipe.eof and self.pipe.cut_at is None and self.pipe.reset_at is None \
                and self.pipe.rpos >= len(self.pipe.buf):
            self.close()
        return n


class GreedyBody(io.IOBase):
    """urllib3-v2 / addinfourl style body: derives from io.IOBase only, not seekable, and read(n) /
    readinto(b) do not return before n bytes have arrived (or the body ended). Asking it for more than the
    current frame needs therefore blocks on a live stream and loses what it had collected when the
    connection breaks."""

    def __init__(self, pipe: Pipe) -> None:
        super().__init__()
        self.pipe = pipe

    def readable(self) -> bool:
        return True

    def seekable(self) -> bool:
        return False

    def _fill(self, n: int) -> bytes:
        out = bytearray()
        while len(out) < n:
            chunk = self.pipe.take(n - len(out))      # may raise (reset) - what was collected is lost
            if not chunk:
                break
            out += chunk
        return bytes(out)

    def read(self, amt=None) -> bytes:
        if amt is None or amt < 0:
            out = bytearray()
            while True:
                chunk = self.pipe.take(1 << 16)
                if not chunk:
                    return bytes(out)
                out += chunk
        return self._fill(amt)

    def readinto(self, b) -> int:
        data = self._fill(len(b))
        b[:len(data)] = data
        return len(data)


class StrictBuffered(io.BufferedIOBase):
    """http.client.HTTPResponse style: a BufferedIOBase whose read() means 'the whole body' and whose
    read(n) wants n >= 0 - read(-1) is not the same call (on a real response it reads past the body)."""

    def __init__(self, pipe: Pipe) -> None:
        super().__init__()
        self.pipe = pipe

    def readable(self) -> bool:
        return True

    def seekable(self) -> bool:
        return False

    def read(self, amt=None) -> bytes:
        if amt is None:
            out = bytearray()
            while True:
                chunk = self.pipe.take(1 << 16)
                if not chunk:
                    return bytes(out)
                out += chunk
        if amt < 0:
            raise OSError("read(-1) on an HTTP response reads past the end of the body")
        out = bytearray()
        while len(out) < amt:
            chunk = self.pipe.take(amt - len(out))
            if not chunk:
                break
            out += chunk
        return bytes(out)

    def read1(self, amt=-1) -> bytes:
        return self.pipe.take(amt if amt and amt > 0 else 1 << 16)

    def readinto(self, b) -> int:
        data = self.read(len(b))
        b[:len(data)] = data
        return len(data)


class _NullRawWriter(io.RawIOBase):
    def writable(self) -> bool:
        return True

    def write(self, b) -> int:
        return len(b)


class SeekableRaw(io.RawIOBase):
    """Seekable raw file that short-reads (regular file behind a BufferedReader)."""

    def __init__(self, sim: Sim, data: bytes, policy: str = "tape") -> None:
        super().__init__()
        self.sim = sim
        self.data = data
        self.pos = 0
        self.pipe = Pipe(sim, b"")
        self.pipe.policy = policy
        self.raw_reads = 0

    def readable(self) -> bool:
        return True

    def seekable(self) -> bool:
        return True

    def seek(self, off: int, whence: int = 0) -> int:
        if whence == 0:
            p = off
        elif whence == 1:
            p = self.pos + off
        else:
            p = len(self.data) + off
        if p < 0:
            raise OSError("negative seek")
        self.pos = p
        self.sim.event("seek", p)
        return p

    def tell(self) -> int:
        return self.pos

    def readinto(self, b) -> int:
        self.raw_reads += 1
        avail = max(0, len(self.data) - self.pos)
        n = min(len(b), avail)
        if n == 0:
            self.sim.event("read", len(b), 0)
            return 0
        k = self.pipe.pick(n)
        b[:k] = self.data[self.pos:self.pos + k]
        self.pos += k
        if k < len(b):
            self.sim.fault("short_read")
        self.sim.event("read", len(b), k)
        return k


FRONTENDS = ("bytesio", "raw", "buffered", "seekable_buffered", "gzip", "duck", "rwpair", "autoclose", "greedy",
             "strict", "gzip_pipe", "nonblocking")
LIVE_FRONTENDS = ("raw", "buffered", "duck", "rwpair", "autoclose", "greedy", "strict")


def open_frontend(kind: str, sim: Sim, data: bytes | None = None, pipe: Pipe | None = None,
                  policy: str = "tape", bufsize: int | None = None, preamble: bytes = b"",
                  members: list | None = None):
    """Return (file_object, pipe_or_None) for a front end over ``data`` or a live pipe."""
    if kind == "bytesio":
        assert data is not None
        f = io.BytesIO(preamble + data)
        f.seek(len(preamble))
        return f, None
    if kind == "gzip":
        assert data is not None
        if members and len(data) > 1:
            # a multi-member gzip file: the payload is split over several members
            cuts = sorted({min(len(data), c) for c in members} | {len(data)})
            comp = b""
            prev = 0
            for c in cuts:
                comp += gzip.compress(data[prev:c], mtime=0)
                prev = c
        else:
            comp = gzip.compress(data, mtime=0)
        f = gzip.GzipFile(fileobj=io.BytesIO(comp), mode="rb")
        return f, None
    if kind == "gzip_pipe":
        # gzip.open(response): a GzipFile (which always claims to be seekable) over a non-seekable raw
        # source that short-reads
        assert data is not None
        comp = gzip.compress(data, mtime=0)
        p2 = Pipe(sim, comp)
        p2.policy = policy
        # (gzip reads its two magic bytes with one read(2) and gives up on a 1-byte answer, so this raw
        #  source answers with at least 2 bytes whenever 2 are asked for; every other short read is legal)
        return gzip.GzipFile(fileobj=RawDribble(p2, at_least=2), mode="rb"), p2
    if kind == "seekable_buffered":
        assert data is not None
        raw = SeekableRaw(sim, preamble + data, policy)
        f = io.BufferedReader(raw, buffer_size=bufsize or io.DEFAULT_BUFFER_SIZE)
        if preamble:
            got = f.read(len(preamble))      # the caller consumed a preamble before handing the file over
            assert got == preamble
        return f, raw.pipe
    if pipe is None:
        pipe = Pipe(sim, data)
    pipe.policy = policy
    raw = RawDribble(pipe)
    if kind == "raw":
        return raw, pipe
    if kind == "nonblocking":
        return NonBlockingRaw(pipe), pipe
    if kind == "duck":
        return DuckBody(pipe), pipe
    if kind == "autoclose":
        return AutoCloseRaw(pipe), pipe
    if kind == "greedy":
        return GreedyBody(pipe), pipe
    if kind == "strict":
        return StrictBuffered(pipe), pipe
    if kind == "rwpair":
        # what socket.makefile("rwb") returns: a BufferedIOBase that is not a BufferedReader
        return io.BufferedRWPair(raw, _NullRawWriter(), bufsize or io.DEFAULT_BUFFER_SIZE), pipe
    if kind == "buffered":
        return io.BufferedReader(raw, buffer_size=bufsize or io.DEFAULT_BUFFER_SIZE), pipe
    raise ValueError(kind)
