"""Engine A: cooperative scheduling of generator pipelines under the kernel.

A producer task's step is "obtain the next frame and write it to the pipe"; a consumer
task's step is "obtain the next item from the parser".  When a consumer's raw read finds
the pipe empty the pipe's demand hook steps the producer (nested); if the producer is
itself executing or finished without EOF, that is a deadlock.
"""
from __future__ import annotations

from . import nodes
from .kernel import Deadlock, Sim
from .pipe import Pipe, open_frontend


class Task:
    __slots__ = ("name", "gen", "done", "running", "error", "steps")

    def __init__(self, name: str, gen) -> None:
        self.name = name
        self.gen = gen
        self.done = False
        self.running = False
        self.error: BaseException | None = None
        self.steps = 0


class Scheduler:
    def __init__(self, sim: Sim) -> None:
        self.sim = sim
        self.tasks: list[Task] = []

    def spawn(self, name: str, gen) -> Task:
        t = Task(name, gen)
        self.tasks.append(t)
        return t

    def step(self, t: Task) -> bool:
        """Run one step of ``t``. Returns False if it could not run."""
        if t.done or t.running:
            return False
        t.running = True
        self.sim.event("switch", t.name)
        try:
            next(t.gen)
            t.steps += 1
        except StopIteration:
            t.done = True
        except Exception as e:  # noqa: BLE001
            t.done = True
            t.error = e
        finally:
            t.running = False
        return True

    def nested(self, num: int = 1, den: int = 3) -> None:
        """Called from inside a running task (e.g. from its input iterator): with a tape-decided
        probability run steps of other tasks before returning - interleaving below frame granularity."""
        while self.sim.flip(num, den, "nested"):
            r = self.runnable()
            if not r:
                return
            self.sim.count("nested_steps")
            self.step(r[self.sim.choose(len(r), "nested_pick")])

    def runnable(self) -> list[Task]:
        return [t for t in self.tasks if not t.done and not t.running]

    def run(self, bias: dict | None = None) -> None:
        while True:
            r = self.runnable()
            if not r:
                return
            self.step(r[self.sim.choose(len(r), "sched")])


def producer_steps(sim: Sim, cfg: dict, ops: list, pipe: Pipe, gate=None, stream_box=None,
                   on_frame=None):
    """Generator: each next() produces and writes one frame; closes the pipe at the end."""
    write = nodes.writer_for(cfg)
    if cfg["entry"].startswith("flat_frames"):
        from pyjelly.serialize.ioutils import write_delimited
        write = write_delimited
    fi = 0
    try:
        for fr in nodes.frames_iter(cfg, ops, sim, gate, stream_box):
            sim.event("frame", fi, len(fr.rows))
            write(fr, pipe)
            if on_frame is not None:
                on_frame(fi, fr)
            fi += 1
            yield
    finally:
        pipe.close_write()


def run_pipeline(sim: Sim, cfg: dict, ops: list, consumer_factory, frontend: str = "buffered",
                 policy: str = "safe", interleave: bool = True):
    """Producer -> pipe -> consumer under the scheduler.

    ``consumer_factory(fobj)`` returns a lazy generator of items.  Returns
    (items, consumer_error, producer_error, pipe).
    """
    sched = Scheduler(sim)
    pipe = Pipe(sim)
    pipe.policy = policy
    fobj, _ = open_frontend(frontend, sim, pipe=pipe, policy=policy)
    prod = sched.spawn("P", producer_steps(sim, cfg, ops, pipe))
    pipe.demand = lambda: sched.step(prod)
    items: list = []

    def consume():
        for it in consumer_factory(fobj):
            items.append(it)
            sim.event("item", len(items))
            yield

    cons = sched.spawn("C", consume())
    if interleave:
        sched.run()
    else:
        while not prod.done:
            sched.step(prod)
        while not cons.done:
            sched.step(cons)
    return items, cons.error, prod.error, pipe
