"""Delta-debugging minimiser over plans (operation lists, fault lists, tape, knobs)."""
from __future__ import annotations

import copy


def _get(plan: dict, path: str):
    cur = plan
    for p in path.split("."):
        cur = cur[p]
    return cur


def _set(plan: dict, path: str, value) -> dict:
    new = copy.deepcopy(plan)
    cur = new
    parts = path.split(".")
    for p in parts[:-1]:
        cur = cur[p]
    cur[parts[-1]] = value
    return new


def ddmin_list(plan: dict, path: str, test) -> dict:
    try:
        items = list(_get(plan, path))
    except (KeyError, TypeError):
        return plan
    n = 2
    while len(items) >= 1:
        chunk = max(1, len(items) // n)
        reduced = False
        i = 0
        while i < len(items):
            cand = items[:i] + items[i + chunk:]
            p2 = _set(plan, path, cand)
            if test(p2):
                items = cand
                plan = p2
                reduced = True
            else:
                i += chunk
        if not reduced:
            if chunk == 1:
                break
            n = min(len(items), n * 2)
        else:
            n = max(2, n - 1)
        if not items:
            break
    return plan


def shrink_tape(plan: dict, test) -> dict:
    tape = list(plan.get("tape") or [])
    if not tape:
        return plan
    # all zeros (plainest schedule)?
    p2 = dict(plan)
    p2["tape"] = []
    if test(p2):
        return p2
    # truncate from the end
    lo, hi = 0, len(tape)
    while lo < hi:
        mid = (lo + hi) // 2
        p2 = dict(plan)
        p2["tape"] = tape[:mid]
        if test(p2):
            hi = mid
        else:
            lo = mid + 1
    tape = tape[:hi]
    plan = dict(plan)
    plan["tape"] = tape
    # zero out blocks
    size = max(1, len(tape) // 2)
    while size >= 1:
        i = 0
        while i < len(tape):
            if any(tape[i:i + size]):
                cand = tape[:i] + [0] * len(tape[i:i + size]) + tape[i + size:]
                p2 = dict(plan)
                p2["tape"] = cand
                if test(p2):
                    tape = cand
                    plan = p2
            i += size
        if size == 1:
            break
        size //= 2
    return plan


TERM_KINDS = ("iri", "bnode", "lit", "triple", "default")


def _is_term(x) -> bool:
    return isinstance(x, list) and x and x[0] in TERM_KINDS


def _simpler(term):
    k = term[0]
    if k == "iri":
        cands = [["iri", "http://e/a"], ["iri", "http://e/b"], ["iri", "a"]]
    elif k == "bnode":
        cands = [["bnode", "b"]]
    elif k == "lit":
        cands = [["lit", "x", None, None], ["lit", term[1], None, None], ["lit", "x", term[2], term[3]]]
    elif k == "triple":
        cands = [term[1], term[3], ["iri", "http://e/a"],
                 ["triple", ["iri", "http://e/a"], ["iri", "http://e/p"], ["iri", "http://e/b"]]]
    else:
        cands = []
    return [c for c in cands if c != term]


def simplify_terms(plan: dict, path: str, test) -> dict:
    """Replace terms of statement operations by simpler ones while the violation persists."""
    try:
        items = _get(plan, path)
    except (KeyError, TypeError):
        return plan
    if not isinstance(items, list):
        return plan
    for i in range(len(items)):
        op = _get(plan, path)[i]
        if not isinstance(op, list):
            continue
        for j in range(len(op)):
            if not _is_term(op[j]):
                continue
            for cand in _simpler(op[j]):
                new_items = copy.deepcopy(_get(plan, path))
                new_items[i][j] = cand
                p2 = _set(plan, path, new_items)
                if test(p2):
                    plan = p2
                    break
    return plan


def shrink(plan: dict, test, lists, simplify=None) -> dict:
    plan = copy.deepcopy(plan)
    for rnd in range(2):
        before = repr(plan)
        for path in lists:
            plan = ddmin_list(plan, path, test)
        plan = shrink_tape(plan, test)
        if rnd == 0:
            for path in lists:
                plan = simplify_terms(plan, path, test)
        if simplify is not None:
            progress = True
            while progress:
                progress = False
                for cand in simplify(plan):
                    if cand != plan and test(cand):
                        plan = cand
                        progress = True
                        break
        if repr(plan) == before:
            break
    return plan
