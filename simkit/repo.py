"""Import discipline: pyjelly must come from the working tree, never from site-packages."""
from __future__ import annotations

import os
import sys

_done = False


def repo_root() -> str:
    return os.path.realpath(os.environ.get("VERIF_REPO", "/repo"))


def setup() -> str:
    """Put the repository first on sys.path and assert pyjelly resolves there."""
    global _done
    root = repo_root()
    if _done:
        return root
    if "pyjelly" in sys.modules:
        f = os.path.realpath(sys.modules["pyjelly"].__file__ or "")
        if not f.startswith(root + os.sep):
            raise RuntimeError(f"pyjelly already imported from {f}, expected under {root}")
    if not sys.path or sys.path[0] != root:
        sys.path.insert(0, root)
    import pyjelly  # noqa: PLC0415

    f = os.path.realpath(pyjelly.__file__ or "")
    if not f.startswith(root + os.sep):
        raise RuntimeError(f"pyjelly resolved to {f}, expected under {root}")
    import pyjelly.serialize.streams as _s  # noqa: PLC0415, F401

    f2 = os.path.realpath(_s.__file__ or "")
    compiled = bool(os.environ.get("VERIF_COMPILED"))
    # ordinary mode: the interpreted working tree, never a compiled module; compiled mode (a mypyc build of the
    # working tree, see simkit/mypyc_build.py): the compiled module and its group library, from the build directory
    if not f2.startswith(root + os.sep) or f2.endswith(".py") == compiled:
        raise RuntimeError(f"pyjelly.serialize.streams resolved to {f2} (compiled mode: {compiled})")
    if compiled:
        import importlib.machinery  # noqa: PLC0415

        group = [m for n, m in sys.modules.items() if n.endswith("__mypyc")]
        if not group or not all(os.path.realpath(m.__file__).startswith(root + os.sep) for m in group):
            raise RuntimeError(f"mypyc group library not loaded from {root}: {[m.__file__ for m in group]}")
    _register_rdflib()
    import logging  # noqa: PLC0415
    import warnings  # noqa: PLC0415

    logging.getLogger("rdflib").setLevel(logging.CRITICAL)
    logging.getLogger("rdflib.term").setLevel(logging.CRITICAL)
    warnings.simplefilter("ignore")
    _done = True
    return root


def _register_rdflib() -> None:
    import rdflib.plugin  # noqa: PLC0415
    from rdflib.parser import Parser  # noqa: PLC0415
    from rdflib.serializer import Serializer  # noqa: PLC0415

    for name in ("jelly", "application/x-jelly-rdf"):
        rdflib.plugin.register(name, Serializer, "pyjelly.integrations.rdflib.serialize",
                               "RDFLibJellySerializer")
        rdflib.plugin.register(name, Parser, "pyjelly.integrations.rdflib.parse",
                               "RDFLibJellyParser")
