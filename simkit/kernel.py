"""Simulation kernel: one PRNG, one choice tape, one event log per run.

Every nondeterministic decision of a run goes through ``Sim.choose``; in search
mode the value is drawn from the run's PRNG and appended to the tape, in replay
mode it is read from the tape (exhausted tape -> 0, which every call site defines
as the plainest alternative).  The event log's SHA-256 is the run digest.
"""
from __future__ import annotations

import hashlib
import random


class HarnessError(Exception):
    """The machinery (not pyjelly) is wrong; reported as exit 2, never VIOLATION."""


class StepCap(BaseException):
    """A run exceeded its event cap.  A BaseException: it is raised from inside the simulated channel, i.e. below
    pyjelly's frames, and neither pyjelly nor a check's ``except Exception`` may mistake it for a parser error."""


class SkipRun(Exception):
    """The run cannot be judged by this check (e.g. the real writer refused the generated input: whether that refusal
    is right is the business of C01/C02/C03/C18, not of a check that only needs some valid bytes to work on)."""


class Deadlock(Exception):
    """No task can make progress although someone is waiting."""

    def __init__(self, msg: str, info: dict | None = None) -> None:
        super().__init__(msg)
        self.info = info or {}


def make_rng(seed: int, check: str, run: int) -> random.Random:
    # String seeding goes through SHA-512: stable across processes and hash seeds.
    return random.Random(f"{seed}:{check}:{run}")


class Sim:
    __slots__ = (
        "rng", "tape", "pos", "replay", "events", "seq", "cap", "counters",
        "_h", "keep_events", "faults",
    )

    def __init__(self, rng: random.Random | None = None, tape: list[int] | None = None,
                 cap: int = 200_000, keep_events: bool = False) -> None:
        self.rng = rng
        self.replay = tape is not None
        self.tape: list[int] = list(tape) if tape is not None else []
        self.pos = 0
        self.seq = 0
        self.cap = cap
        self.counters: dict[str, int] = {}
        self.faults: dict[str, int] = {}
        self._h = hashlib.sha256()
        self.keep_events = keep_events
        self.events: list[tuple] = []

    # -- decisions -----------------------------------------------------------
    def choose(self, n: int, label: str = "") -> int:
        """Return an int in [0, n). n <= 1 consumes nothing."""
        if n <= 1:
            return 0
        if self.replay:
            if self.pos < len(self.tape):
                v = self.tape[self.pos]
                self.pos += 1
                if v < 0:
                    v = 0
                return v % n
            self.pos += 1
            return 0
        v = self.rng.randrange(n)
        self.tape.append(v)
        return v

    def flip(self, num: int, den: int, label: str = "") -> bool:
        """True with probability num/den (tape value 0 = False = plainest)."""
        if num <= 0:
            return False
        return self.choose(den, label) >= den - num

    # -- history ---------------------------------------------------------------
    def event(self, kind: str, *args) -> int:
        self.seq += 1
        if self.seq > self.cap:
            raise StepCap(f"event cap {self.cap} exceeded")
        rec = (self.seq, kind, *args)
        self._h.update(repr(rec).encode("utf-8", "backslashreplace"))
        if self.keep_events:
            self.events.append(rec)
        return self.seq

    def count(self, key: str, n: int = 1) -> None:
        self.counters[key] = self.counters.get(key, 0) + n

    def fault(self, kind: str, n: int = 1) -> None:
        self.faults[kind] = self.faults.get(kind, 0) + n

    def digest(self) -> str:
        return self._h.hexdigest()

    def used_tape(self) -> list[int]:
        if self.replay:
            return self.tape[: self.pos]
        return self.tape
