"""Seeded search driver: expands VERIF_SEED into runs, executes them on forked workers,
triages violations against KNOWN_FINDINGS.txt, minimises, writes replay + evidence."""
from __future__ import annotations

import concurrent.futures as cf
import faulthandler
import hashlib
import importlib
import json
import multiprocessing
import os
import sys
import time
import traceback

from . import shrink as shrinker
from .kernel import Deadlock, HarnessError, Sim, SkipRun, StepCap, make_rng

VERIF = os.path.dirname(os.path.dirname(os.path.abspath(__file__)))
EVIDENCE_DIR = os.path.join(VERIF, "evidence")
REPLAY_DIR = os.path.join(EVIDENCE_DIR, "replays")
KNOWN_FILE = os.path.join(VERIF, "KNOWN_FINDINGS.txt")
# events per run: a backstop against runaway runs (an uncaught StepCap is a harness error), generous enough that no
# legitimately long run meets it; checks whose runs scale with the stream size (C09, C10) set their own
DEFAULT_CAP = 2_000_000


def load_check(cid: str):
    return importlib.import_module(f"checks.{cid.lower()}")


# ------------------------------------------------------------------ child interpreters: python -O, mypyc build
# A plan marked {"interpreter": "-O"} is executed in a long-lived child interpreter started with -O (assert
# statements removed, __debug__ false); {"interpreter": "mypyc"} in a child that imports pyjelly from a mypyc build
# of the working tree (simkit/mypyc_build.py).  Same plan, same PRNG state / tape; the child's tape, counters and
# event-log digest are folded back into the parent's Sim so that the run stays one replayable execution.
_CHILD = {"pid": None, "procs": {}}
CHILD_LABEL = {"-O": "python -O", "mypyc": "mypyc build", "pbpy": "pure-Python protobuf backend"}


def compiled_build() -> str | None:
    """Build directory for the 'mypyc' variant of the tree under test (None: not available; why is printed once)."""
    if os.environ.get("VERIF_NO_COMPILED"):
        return None
    cached = os.environ.get("VERIF_MYPYC_BUILD")
    if cached is not None:
        return cached or None
    from . import mypyc_build, repo
    path, note = mypyc_build.ensure_build(repo.repo_root())
    os.environ["VERIF_MYPYC_BUILD"] = path or ""
    if path is None:
        print(f"  note: no mypyc build of the tree under test ({note}); compiled-mode runs are skipped")
    return path


def _opt_child(kind: str = "-O"):
    import atexit
    import subprocess
    if _CHILD["pid"] != os.getpid():
        _CHILD["pid"], _CHILD["procs"] = os.getpid(), {}
        atexit.register(_opt_stop)
    proc = _CHILD["procs"].get(kind)
    if proc is None or proc.poll() is not None:
        env = dict(os.environ, PYTHONHASHSEED="0", PYTHONDONTWRITEBYTECODE="1")
        env.pop("PYTHONOPTIMIZE", None)
        args = [sys.executable, "-B"]
        env.pop("PROTOCOL_BUFFERS_PYTHON_IMPLEMENTATION", None)
        if kind == "-O":
            args.insert(1, "-O")
            env.pop("VERIF_COMPILED", None)
        elif kind == "pbpy":
            # protobuf's pure-Python implementation instead of upb (what platforms without a binary wheel run)
            env["PROTOCOL_BUFFERS_PYTHON_IMPLEMENTATION"] = "python"
            env.pop("VERIF_COMPILED", None)
        else:
            build = compiled_build()
            if build is None:
                raise HarnessError("compiled-mode plan but no mypyc build is available")
            env["VERIF_COMPILED"] = "1"
            env["VERIF_REPO"] = build
        proc = subprocess.Popen([*args, os.path.join(VERIF, "simkit_main.py"), "--opt-child"],
                                stdin=subprocess.PIPE, stdout=subprocess.PIPE, text=True, env=env, cwd=VERIF)
        _CHILD["procs"][kind] = proc
    return proc


def _opt_stop():
    if _CHILD["pid"] != os.getpid():
        return
    for proc in _CHILD["procs"].values():
        try:
            proc.stdin.close()
            proc.wait(timeout=5)
        except Exception:  # noqa: BLE001
            proc.kill()
    _CHILD["procs"] = {}


def run_in_opt_child(mod, plan: dict, sim: Sim) -> dict:
    inner = {k: v for k, v in plan.items() if k not in ("interpreter", "tape")}
    msg = {"cid": mod.ID, "plan": inner, "cap": sim.cap}
    if sim.replay:
        msg["tape"] = sim.tape
    else:
        st = sim.rng.getstate()
        msg["rng_state"] = [st[0], list(st[1]), st[2]]
    kind = plan["interpreter"]
    proc = _opt_child(kind)
    try:
        proc.stdin.write(json.dumps(msg) + "\n")
        proc.stdin.flush()
        line = proc.stdout.readline()
    except (BrokenPipeError, OSError) as e:
        raise HarnessError(f"{kind} child went away: {e}") from None
    if not line:
        raise HarnessError(f"{kind} child died (exit {proc.poll()})")
    resp = json.loads(line)
    if kind == "-O" and resp.get("optimize", 0) < 1:
        raise HarnessError("child interpreter does not run with -O")
    if kind == "mypyc" and not resp.get("compiled"):
        raise HarnessError("child interpreter did not import the mypyc build")
    if kind == "pbpy" and resp.get("protobuf") != "python":
        raise HarnessError(f"child interpreter uses protobuf backend {resp.get('protobuf')}")
    if sim.replay:
        sim.pos = resp["pos"]
    else:
        sim.tape = list(resp["tape"])
    for k, v in resp["counters"].items():
        sim.count(k, v)
    for k, v in resp["faults"].items():
        sim.fault(k, v)
    sim.count({"-O": "python_O_runs", "mypyc": "mypyc_build_runs", "pbpy": "protobuf_python_backend_runs"}[kind])
    sim.seq += resp["seq"]
    sim._h.update(resp["digest"].encode())
    for v in resp["violations"]:
        # same signature as in the ordinary interpreter (one defect, one replay); the plan says where it ran
        v["msg"] = f"[{CHILD_LABEL[kind]}] " + str(v.get("msg", ""))
    key = frozenset(("-O", k) for k in resp["keys"]) if resp["keys"] else None
    return {"violations": resp["violations"], "key": key, "harness": resp["harness"]}


def cmd_opt_child() -> int:
    """Serve plans on stdin (one JSON object per line) until EOF; answers go to the original stdout."""
    import random
    out = os.fdopen(os.dup(1), "w")
    os.dup2(2, 1)               # anything the code under test prints goes to stderr
    sys.stdout = sys.stderr
    from . import repo
    repo.setup()
    from google.protobuf.internal import api_implementation
    pb_backend = api_implementation.Type()
    for line in sys.stdin:
        msg = json.loads(line)
        mod = load_check(msg["cid"])
        if "tape" in msg:
            sim = Sim(tape=msg["tape"], cap=msg["cap"])
        else:
            rng = random.Random(0)
            st = msg["rng_state"]
            rng.setstate((st[0], tuple(st[1]), st[2]))
            sim = Sim(rng=rng, cap=msg["cap"])
        res = run_plan(mod, msg["plan"], sim)
        keys = []
        if res["key"] is not None:
            ks = res["key"] if isinstance(res["key"], (set, frozenset)) else (res["key"],)
            keys = sorted(hashlib.blake2b(repr(k1).encode("utf-8", "backslashreplace"), digest_size=8).hexdigest()
                          for k1 in ks)
        out.write(json.dumps({"optimize": sys.flags.optimize, "compiled": bool(os.environ.get("VERIF_COMPILED")),
                              "protobuf": pb_backend,
                              "violations": res["violations"], "keys": keys,
                              "harness": res["harness"], "tape": sim.tape if not sim.replay else [],
                              "pos": sim.pos, "counters": sim.counters, "faults": sim.faults, "seq": sim.seq,
                              "digest": sim.digest()}, default=repr) + "\n")
        out.flush()
    return 0


# ------------------------------------------------------------------ single run
def run_plan(mod, plan: dict, sim: Sim) -> dict:
    """Execute one plan under ``sim``; returns {'violations','key','harness'}"""
    out = {"violations": [], "key": None, "harness": None}
    if plan.get("interpreter") in ("-O", "mypyc", "pbpy"):
        try:
            return run_in_opt_child(mod, plan, sim)
        except HarnessError as e:
            out["harness"] = f"HarnessError: {e}"
            return out
    try:
        res = mod.execute(plan, sim)
        if isinstance(res, tuple):
            out["violations"], out["key"] = res
        else:
            out["violations"] = res or []
    except SkipRun as e:
        sim.count("runs_skipped")
        sim.event("skipped", str(e)[:80])
    except HarnessError as e:
        out["harness"] = f"HarnessError: {e}"
    except (StepCap, Deadlock) as e:
        out["harness"] = f"uncaught {type(e).__name__}: {e}\n{traceback.format_exc()}"
    except Exception as e:  # noqa: BLE001
        out["harness"] = f"{type(e).__name__}: {e}\n{traceback.format_exc()}"
    return out


def sig_of(v: dict) -> dict:
    s = {"clause": v["clause"]}
    s.update(v.get("sig") or {})
    return s


def sig_key(sig: dict) -> str:
    return json.dumps(sig, sort_keys=True, ensure_ascii=True)


def do_run(mod, seed: int, run: int, tier: str) -> tuple[dict, dict, Sim]:
    rng = make_rng(seed, mod.ID, run)
    plan = mod.generate(rng, run, tier)
    every = getattr(mod, "OPTIMIZED_EVERY", 0)
    if every and run % every == every - 1 and not os.environ.get("VERIF_NO_OPT_CHILD"):
        plan["interpreter"] = "-O"
    every_p = getattr(mod, "PBPY_EVERY", 0)
    if every_p and run % every_p == 6 and not os.environ.get("VERIF_NO_OPT_CHILD"):
        plan["interpreter"] = "pbpy"
    every_c = getattr(mod, "COMPILED_EVERY", 0)
    if every_c and run % every_c == every_c // 2 and os.environ.get("VERIF_MYPYC_BUILD"):
        plan["interpreter"] = "mypyc"
    plan.setdefault("check", mod.ID)
    plan["seed"] = seed
    plan["run"] = run
    sim = Sim(rng=rng, cap=plan.get("cap", DEFAULT_CAP))
    res = run_plan(mod, plan, sim)
    return plan, res, sim


def _worker(args):
    cid, seed, tier, lo, hi, want_digests = args
    faulthandler.dump_traceback_later(1500, exit=True)
    from . import repo
    repo.setup()
    mod = load_check(cid)
    key_sample = int(getattr(mod, "KEY_SAMPLE", {}).get(tier, 1))
    agg = {"counters": {}, "faults": {}, "keys": set(), "steps": 0, "runs": 0,
           "viol": {}, "harness": [], "digests": [], "hash": hashlib.sha256(),
           "samples": [], "tape_len": 0, "sched": set()}
    for run in range(lo, hi):
        plan, res, sim = do_run(mod, seed, run, tier)
        agg["runs"] += 1
        agg["steps"] += sim.seq
        agg["tape_len"] += len(sim.tape)
        d = sim.digest()
        agg["hash"].update(d.encode())
        if want_digests:
            agg["digests"].append((run, d))
        agg["sched"].add(d[:16])
        for k, v in sim.counters.items():
            agg["counters"][k] = agg["counters"].get(k, 0) + v
        for k, v in sim.faults.items():
            agg["faults"][k] = agg["faults"].get(k, 0) + v
        if res["key"] is not None:
            ks = res["key"] if isinstance(res["key"], (set, frozenset)) else (res["key"],)
            for k1 in ks:
                dg = hashlib.blake2b(repr(k1).encode("utf-8", "backslashreplace"), digest_size=8).digest()
                if key_sample > 1 and dg[0] % key_sample:
                    continue        # a 1/key_sample hash sample of the keys is kept (memory), see KEY_SAMPLE
                agg["keys"].add(dg)
        if res["harness"]:
            if len(agg["harness"]) < 3:
                agg["harness"].append({"run": run, "error": res["harness"], "plan": plan,
                                       "tape": list(sim.tape)})
            continue
        for v in res["violations"]:
            sk = sig_key(sig_of(v))
            slot = agg["viol"].get(sk)
            if slot is None:
                p2 = dict(plan)
                p2["tape"] = list(sim.tape)
                agg["viol"][sk] = {"count": 1, "plan": p2, "v": v, "digest": d, "run": run}
            else:
                slot["count"] += 1
        if run - lo < 1 and len(agg["samples"]) < 1:
            agg["samples"].append(abbrev_plan(plan))
    faulthandler.cancel_dump_traceback_later()
    agg["hash"] = agg["hash"].hexdigest()
    return lo, agg


def abbrev(o, maxlen=160, maxitems=12):
    if isinstance(o, str):
        return o if len(o) <= maxlen else o[:maxlen] + f"...(+{len(o) - maxlen})"
    if isinstance(o, (list, tuple)):
        lst = [abbrev(x, maxlen, maxitems) for x in o[:maxitems]]
        if len(o) > maxitems:
            lst.append(f"...(+{len(o) - maxitems} more)")
        return lst
    if isinstance(o, dict):
        return {k: abbrev(v, maxlen, maxitems) for k, v in o.items()}
    if isinstance(o, bytes):
        return abbrev(o.hex(), maxlen)
    return o


def abbrev_plan(plan: dict) -> dict:
    p = {k: v for k, v in plan.items() if k != "tape"}
    return abbrev(p)


# ------------------------------------------------------------------ known findings
def load_known(cid: str):
    findings, fixed = [], []
    if not os.path.exists(KNOWN_FILE):
        return findings, fixed
    with open(KNOWN_FILE, encoding="utf-8") as fh:
        for line in fh:
            line = line.strip()
            if not line or line.startswith("#"):
                continue
            if line.startswith("finding:"):
                head, _, text = line[len("finding:"):].partition("::")
                parts = head.strip().split(" ", 2)
                kv = dict(p.split("=", 1) for p in parts[:2])
                match = json.loads(parts[2].split("=", 1)[1])
                if kv.get("property") == cid:
                    findings.append({"id": kv.get("id"), "match": match, "text": text.strip()})
            elif line.startswith("fixed:"):
                if f"property={cid} " in line:
                    fixed.append(line)
    return findings, fixed


def match_known(sig: dict, findings: list):
    for f in findings:
        if all(sig.get(k) == v for k, v in f["match"].items()):
            return f
    return None


# ------------------------------------------------------------------ replay / minimise
def replay_plan(mod, plan: dict) -> tuple[dict, Sim]:
    sim = Sim(tape=plan.get("tape") or [], cap=plan.get("cap", DEFAULT_CAP))
    res = run_plan(mod, plan, sim)
    return res, sim


def minimise(mod, plan: dict, target_sig: dict, budget_runs=400, budget_s=30.0) -> dict:
    budget_runs, budget_s = getattr(mod, "SHRINK_BUDGET", (budget_runs, budget_s))
    t0 = time.time()
    runs = [0]

    def still_fails(p: dict) -> bool:
        if runs[0] >= budget_runs or time.time() - t0 > budget_s:
            return False
        runs[0] += 1
        res, _ = replay_plan(mod, p)
        if res["harness"]:
            return False
        for v in res["violations"]:
            s = sig_of(v)
            if s == target_sig:
                return True
        return False

    lists = getattr(mod, "SHRINK_LISTS", ["ops"])
    simplify = getattr(mod, "simplify", None)
    return shrinker.shrink(plan, still_fails, lists, simplify), runs[0]


def write_replay(cid: str, plan: dict, v: dict, digest: str) -> str:
    os.makedirs(REPLAY_DIR, exist_ok=True)
    path = os.path.join(REPLAY_DIR, f"{cid}-{plan.get('seed')}-{plan.get('run')}-"
                        f"{hashlib.sha1(sig_key(sig_of(v)).encode()).hexdigest()[:8]}.json")
    doc = {"check": cid, "signature": sig_of(v), "message": v.get("msg", ""),
           "digest": digest, "plan": plan}
    with open(path, "w", encoding="utf-8") as fh:
        json.dump(doc, fh, ensure_ascii=True, indent=1)
    return path


def confirm_in_fresh_interpreter(path: str) -> None:
    """The minimised plan was last executed in this process, after every candidate the minimiser tried: on a tree
    that keeps state between streams (what C12 is about) the event log of that execution can differ from the one a
    fresh interpreter produces.  The replay file has to reproduce in a fresh interpreter, so that is where its
    digest is taken from when the two differ (same violation, same plan, same tape)."""
    import re
    import subprocess
    try:
        r = subprocess.run([os.path.join(VERIF, "check"), "--replay", path], capture_output=True, text=True,
                           timeout=600, cwd=VERIF)
        m = re.search(r"digest=DIFFERS ([0-9a-f]+)", r.stdout)
        if r.returncode == 2 and m:
            with open(path, encoding="utf-8") as fh:
                doc = json.load(fh)
            doc["digest_of_minimising_process"] = doc.get("digest")
            doc["digest"] = m.group(1)
            with open(path, "w", encoding="utf-8") as fh:
                json.dump(doc, fh, ensure_ascii=True, indent=1)
    except Exception:  # noqa: BLE001
        pass


def cmd_replay(path: str) -> int:
    with open(path, encoding="utf-8") as fh:
        doc = json.load(fh)
    from . import repo
    repo.setup()
    cid = doc["check"]
    mod = load_check(cid)
    res, sim = replay_plan(mod, doc["plan"])
    if res["harness"]:
        print(f"HARNESS-ERROR property={cid} {res['harness']}")
        return 2
    def compatible(a: dict, b: dict) -> bool:
        # same clause, and every attribute both signatures carry agrees (signatures gained attributes over time)
        return a.get("clause") == b.get("clause") and all(a[k] == b[k] for k in a.keys() & b.keys())

    for v in res["violations"]:
        if sig_of(v) == doc["signature"] or compatible(sig_of(v), doc["signature"]):
            same = sim.digest() == doc.get("digest") or sig_of(v) != doc["signature"]
            print(f"VIOLATION property={cid} replay={path}")
            print(f"  signature={sig_key(sig_of(v))}")
            print(f"  message={v.get('msg', '')}")
            print(f"  digest={'identical' if same else 'DIFFERS'} {sim.digest()}")
            return 1 if same else 2
    print(f"NOT-REPRODUCED property={cid} replay={path} got={[sig_of(v) for v in res['violations']]}")
    return 2


# ------------------------------------------------------------------ main search
def cmd_check(cid: str, tier: str) -> int:
    t0 = time.time()
    cid = cid.upper()
    from . import repo
    root = repo.setup()
    mod = load_check(cid)
    seed = int(os.environ.get("VERIF_SEED", "1"))
    workers = int(os.environ.get("VERIF_WORKERS", "0")) or max(1, min(16, os.cpu_count() or 1))
    n_runs = int(os.environ.get("VERIF_RUNS", "0")) or mod.RUNS[tier]
    want_digests = os.environ.get("VERIF_DIGESTS")
    chunk = max(1, min(getattr(mod, "CHUNK", 250), (n_runs + workers * 4 - 1) // (workers * 4)))
    jobs = [(cid, seed, tier, lo, min(lo + chunk, n_runs), bool(want_digests))
            for lo in range(0, n_runs, chunk)]
    # backstop against hung workers, not a performance requirement: generous, and wider on machines with fewer cores
    wall_cap = float(os.environ.get("VERIF_WALL", "0")) or getattr(mod, "WALL", {}).get(
        tier, (3000 if tier == "quick" else 6 * 3600) * max(1.0, 16 / workers))
    results = {}
    harness_fail = None
    if hasattr(mod, "prepare"):
        mod.prepare(tier)
    if getattr(mod, "COMPILED_EVERY", 0):
        compiled_build()            # before the workers are forked: they inherit VERIF_MYPYC_BUILD
    if workers <= 1:
        for j in jobs:
            lo, agg = _worker(j)
            results[lo] = agg
    else:
        ctx = multiprocessing.get_context("fork")
        with cf.ProcessPoolExecutor(max_workers=workers, mp_context=ctx) as ex:
            futs = {ex.submit(_worker, j): j for j in jobs}
            try:
                for f in cf.as_completed(futs, timeout=wall_cap):
                    lo, agg = f.result()
                    results[lo] = agg
            except cf.TimeoutError:
                harness_fail = f"wall-clock backstop {wall_cap}s hit; workers hung"
                for p in list(getattr(ex, "_processes", {}).values()):
                    p.kill()
            except Exception as e:  # noqa: BLE001  (BrokenProcessPool etc.)
                harness_fail = f"worker pool failed: {type(e).__name__}: {e}"
    if harness_fail:
        print(f"HARNESS-ERROR property={cid} {harness_fail}")
        return 2

    # merge in run order
    tot = {"counters": {}, "faults": {}, "keys": set(), "steps": 0, "runs": 0,
           "harness": [], "samples": [], "tape_len": 0, "sched": set()}
    viol: dict[str, dict] = {}
    h = hashlib.sha256()
    digests = []
    late_new = 0
    for lo in sorted(results):
        a = results[lo]
        if lo >= 0.9 * n_runs:
            late_new += len(a["keys"] - tot["keys"])
        tot["runs"] += a["runs"]
        tot["steps"] += a["steps"]
        tot["tape_len"] += a["tape_len"]
        tot["keys"] |= a["keys"]
        tot["sched"] |= a["sched"]
        for k, v in a["counters"].items():
            tot["counters"][k] = tot["counters"].get(k, 0) + v
        for k, v in a["faults"].items():
            tot["faults"][k] = tot["faults"].get(k, 0) + v
        tot["harness"].extend(a["harness"])
        if len(tot["samples"]) < 3:
            tot["samples"].extend(a["samples"])
        h.update(a["hash"].encode())
        digests.extend(a["digests"])
        for sk, slot in a["viol"].items():
            if sk not in viol:
                viol[sk] = slot
            else:
                viol[sk]["count"] += slot["count"]
    if want_digests:
        with open(want_digests, "w") as fh:
            for run, d in digests:
                fh.write(f"{run} {d}\n")

    if tot["harness"]:
        hrec = tot["harness"][0]
        print(f"HARNESS-ERROR property={cid} run={hrec['run']} {hrec['error']}")
        os.makedirs(REPLAY_DIR, exist_ok=True)
        hp = os.path.join(REPLAY_DIR, f"{cid}-harness-{seed}-{hrec['run']}.json")
        pl = dict(hrec["plan"])
        pl["tape"] = hrec["tape"]
        with open(hp, "w") as fh:
            json.dump({"check": cid, "signature": {"clause": "harness"}, "plan": pl,
                       "error": hrec["error"]}, fh, indent=1)
        print(f"  plan saved to {hp}")
        return 2

    findings, fixed = load_known(cid)
    known_seen: dict[str, int] = {}
    new_violations = []
    for sk in sorted(viol):
        slot = viol[sk]
        sig = sig_of(slot["v"])
        kf = match_known(sig, findings)
        if kf is not None:
            known_seen[kf["id"]] = known_seen.get(kf["id"], 0) + slot["count"]
        else:
            new_violations.append((sk, slot))
    for f in findings:
        if f["id"] in known_seen:
            print(f"KNOWN-FINDING: property={cid} {f['id']}: {f['text']} (seen {known_seen[f['id']]}x)")
    if os.environ.get("VERIF_REPLAY_KNOWN"):
        # development aid: also write a minimised replay file for each known finding seen in this run
        for sk in sorted(viol):
            slot = viol[sk]
            sig = sig_of(slot["v"])
            if match_known(sig, findings) is None:
                continue
            small, _ = minimise(mod, slot["plan"], sig)
            res, sim2 = replay_plan(mod, small)
            v2 = next((v for v in res["violations"] if sig_of(v) == sig), None)
            if v2 is None:
                small = slot["plan"]
                res, sim2 = replay_plan(mod, small)
                v2 = next((v for v in res["violations"] if sig_of(v) == sig), slot["v"])
            small["tape"] = sim2.used_tape()
            print(f"  known finding replay: {write_replay(cid, small, v2, sim2.digest())}")
    replay_paths = []
    for sk, slot in new_violations[:8]:
        sig = sig_of(slot["v"])
        plan = slot["plan"]
        try:
            small, nre = minimise(mod, plan, sig)
        except Exception:  # noqa: BLE001
            small, nre = plan, 0
        res, sim2 = replay_plan(mod, small)
        v2 = next((v for v in res["violations"] if sig_of(v) == sig), None)
        if v2 is None:
            small = plan
            res, sim2 = replay_plan(mod, small)
            v2 = next((v for v in res["violations"] if sig_of(v) == sig), slot["v"])
        small["tape"] = sim2.used_tape()
        path = write_replay(cid, small, v2, sim2.digest())
        confirm_in_fresh_interpreter(path)
        replay_paths.append(path)
        print(f"VIOLATION property={cid} replay={path}")
        print(f"  signature={sk} count={slot['count']} first_run={slot['run']} shrink_reexecutions={nre}")
        print(f"  message={abbrev(v2.get('msg', ''), 600)}")

    wall = time.time() - t0
    probes = dict(sorted(tot["counters"].items()))
    probe_names = list(getattr(mod, "PROBES", []))
    if getattr(mod, "OPTIMIZED_EVERY", 0):
        probe_names.append("python_O_runs")
    if getattr(mod, "COMPILED_EVERY", 0) and os.environ.get("VERIF_MYPYC_BUILD"):
        probe_names.append("mypyc_build_runs")
    if getattr(mod, "PBPY_EVERY", 0):
        probe_names.append("protobuf_python_backend_runs")
    zero_probes = [p for p in probe_names if not probes.get(p)]
    ev = {
        "property_id": cid, "tier": tier, "seed": seed, "level": mod.LEVEL,
        "wall_s": round(wall, 3), "violations": len(new_violations),
        "assumptions": list(getattr(mod, "ASSUMPTIONS", [])),
        "coverage": {
            "evaluations": int(probes.get("evaluations", tot["runs"])),
            "distinct_nontrivial": len(tot["keys"]),
            "rule": mod.RULE,
            "samples": tot["samples"][:3] or [{"note": "no sample captured"}],
            "runs": tot["runs"],
            "runs_per_hour": int(tot["runs"] / max(wall, 1e-6) * 3600),
            "seeds_per_hour": round(3600 / max(wall, 1e-6), 2),
            "sim_steps": tot["steps"],
            "sim_time_note": "pyjelly reads no clock; simulated time is the kernel's logical "
                             "event sequence number summed over runs",
            "tape_decisions": tot["tape_len"],
            "fault_counts": dict(sorted(tot["faults"].items())),
            "probes": probes,
            "probes_at_zero": zero_probes,
            "distinct_new_in_last_10pct_of_runs": late_new,
            "distinct_interleavings": len(tot["sched"]),
            "distinct_interleavings_measure": "distinct event-log digests (one per run: every "
                                              "pull/frame/write/read/fault/switch event with its arguments)",
            "batch_digest": h.hexdigest(),
            "components": getattr(mod, "COMPONENTS", {}),
            "build_variants": {
                "interpreted working tree (this process)": tot["runs"] - probes.get("python_O_runs", 0)
                - probes.get("mypyc_build_runs", 0) - probes.get("protobuf_python_backend_runs", 0),
                "same tree with protobuf's pure-Python backend in a child interpreter":
                    probes.get("protobuf_python_backend_runs", 0),
                "same tree in a child interpreter started with python -O": probes.get("python_O_runs", 0),
                "mypyc build of the same tree (the modules pyproject.toml compiles) in a child interpreter":
                    probes.get("mypyc_build_runs", 0),
                "mypyc_build": os.environ.get("VERIF_MYPYC_BUILD") or "not available / disabled",
            },
            "known_findings_seen": known_seen,
            "fixed_entries": fixed,
            "violation_signatures": [sk for sk, _ in new_violations],
            "repo": root, "workers": workers,
        },
    }
    ks_ = int(getattr(mod, "KEY_SAMPLE", {}).get(tier, 1))
    if ks_ > 1:
        ev["coverage"]["distinct_nontrivial_note"] = (
            f"lower bound: only the keys whose digest falls into 1 of {ks_} hash classes are kept in this tier "
            f"(memory); the estimate of the full count is {ks_} x distinct_nontrivial")
    ev["coverage"].update(getattr(mod, "EXTRA_COVERAGE", {}))
    if getattr(mod, "EXHAUSTIVE_NOTE", None):
        ev["coverage"]["enumeration_note"] = mod.EXHAUSTIVE_NOTE
    err = validate_evidence(ev)
    if err and not new_violations:
        print(f"HARNESS-ERROR property={cid} evidence invalid: {err}")
        return 2
    if err:
        # violations were found and reported above: thin coverage (e.g. every run stopped at its first violation)
        # must not turn exit 1 into a harness error
        print(f"  note: coverage is thin on this tree ({err}); the violations above stand")
    if not os.environ.get("VERIF_NO_EVIDENCE"):
        os.makedirs(EVIDENCE_DIR, exist_ok=True)
        with open(os.path.join(EVIDENCE_DIR, f"{cid}.json"), "w", encoding="utf-8") as fh:
            json.dump(ev, fh, ensure_ascii=True, indent=1, sort_keys=True)
    print(f"{cid} {tier}: runs={tot['runs']} steps={tot['steps']} distinct={len(tot['keys'])} "
          f"violations={len(new_violations)} known={sum(known_seen.values())} "
          f"wall={wall:.1f}s digest={h.hexdigest()[:16]}")
    if zero_probes:
        print(f"  note: probes at zero: {zero_probes}")
    if new_violations:
        return 1
    return 0


def validate_evidence(ev: dict) -> str | None:
    for k in ("property_id", "tier", "seed", "level", "coverage", "wall_s"):
        if k not in ev:
            return f"missing {k}"
    c = ev["coverage"]
    for k in ("evaluations", "distinct_nontrivial", "rule", "samples"):
        if k not in c:
            return f"coverage missing {k}"
    if not isinstance(c["evaluations"], int) or c["evaluations"] < 1:
        return "evaluations < 1"
    if not isinstance(c["distinct_nontrivial"], int) or c["distinct_nontrivial"] < 2:
        return f"distinct_nontrivial={c['distinct_nontrivial']} < 2"
    if not isinstance(c["samples"], list) or not c["samples"]:
        return "samples empty"
    return None


def main(argv: list[str]) -> int:
    import argparse
    ap = argparse.ArgumentParser(prog="check")
    ap.add_argument("cid", nargs="?")
    ap.add_argument("--tier", default=os.environ.get("VERIF_TIER", "quick"),
                    choices=["quick", "thorough"])
    ap.add_argument("--replay")
    ap.add_argument("--selftest")
    ap.add_argument("--opt-child", action="store_true")
    a = ap.parse_args(argv)
    if a.opt_child:
        return cmd_opt_child()
    if a.replay:
        return cmd_replay(a.replay)
    if a.selftest:
        st = importlib.import_module(f"selftest.{a.selftest}")
        return st.main(a.cid)
    if not a.cid:
        ap.error("check id required")
    return cmd_check(a.cid, a.tier)
