"""A mypyc build of the working tree, the form in which pyjelly is shipped (pyproject.toml: hatch-mypyc compiles
eight modules).  Compiled code differs from the interpreted modules in ways that matter to the properties: argument
types are checked at compiled call sites, a StopIteration escaping inside a compiled generator ends it silently,
monkeypatches are bypassed.  Every COMPILED_EVERY-th run of the checks that opt in is executed in a child
interpreter that imports pyjelly from such a build.

The build is a pure function of the sources: it lives under the system temp directory, keyed by a hash of
pyjelly/**/*.py (+ interpreter and mypy versions), is created on demand and re-created whenever it is missing.
Nothing a registered command needs is kept there - a missing cache only costs the ~25 s build again.
"""
from __future__ import annotations

import fcntl
import hashlib
import os
import shutil
import subprocess
import sys
import tempfile

MARK = ".verif-mypyc-ok"
FLAGS = ["--ignore-missing-imports", "--no-warn-no-return",
         # the type stubs installed here are stricter than the ones the project builds against (protobuf's
         # parse_length_prefixed is annotated BytesIO); these two codes only silence that difference
         "--disable-error-code=arg-type", "--disable-error-code=unused-ignore"]


def modules_to_compile(root: str) -> list[str]:
    """The module list of [tool.hatch.build.targets.wheel.hooks.mypyc] in the tree's pyproject.toml."""
    import tomllib
    try:
        with open(os.path.join(root, "pyproject.toml"), "rb") as fh:
            cfg = tomllib.load(fh)
        inc = cfg["tool"]["hatch"]["build"]["targets"]["wheel"]["hooks"]["mypyc"]["include"]
        return [m for m in inc if os.path.exists(os.path.join(root, m))]
    except (OSError, KeyError, tomllib.TOMLDecodeError):
        return []


def tree_hash(root: str, mods: list[str]) -> str:
    h = hashlib.sha256()
    h.update(sys.version.encode())
    try:
        import mypy.version
        h.update(mypy.version.__version__.encode())
    except ImportError:
        h.update(b"no-mypy")
    h.update(repr(mods).encode())
    pkg = os.path.join(root, "pyjelly")
    for dp, dn, fn in sorted(os.walk(pkg)):
        dn.sort()
        for f in sorted(fn):
            if f.endswith((".py", ".pyi")):
                p = os.path.join(dp, f)
                h.update(os.path.relpath(p, root).encode())
                with open(p, "rb") as fh:
                    h.update(fh.read())
    return h.hexdigest()[:20]


def _prune(keep: str, older_than_s: float = 12 * 3600) -> None:
    """Remove builds of other trees (scratch copies, earlier commits) that nobody has touched for half a day."""
    import glob
    import time
    for d in glob.glob(os.path.join(tempfile.gettempdir(), "pyjelly-verif-mypyc-*")):
        if d == keep or not os.path.isdir(d) or "-build-" in os.path.basename(d):
            continue
        try:
            if time.time() - os.path.getmtime(os.path.join(d, MARK)) > older_than_s:
                shutil.rmtree(d, ignore_errors=True)
        except OSError:
            pass


def ensure_build(root: str) -> tuple[str | None, str]:
    """Return (build directory, note).  The directory holds a `pyjelly` package whose listed modules are compiled;
    None when a build is not possible (no mypyc, sources do not type-check, compiler missing) - the note says why."""
    root = os.path.realpath(root)
    mods = modules_to_compile(root)
    if not mods:
        return None, "no mypyc module list in pyproject.toml"
    try:
        import mypyc  # noqa: F401
    except ImportError:
        return None, "mypyc is not installed"
    key = tree_hash(root, mods)
    base = os.path.join(tempfile.gettempdir(), f"pyjelly-verif-mypyc-{key}")
    if os.path.exists(os.path.join(base, MARK)):
        try:
            os.utime(os.path.join(base, MARK))     # in use: keeps _prune away
        except OSError:
            pass
        return base, "cached"
    lock_path = base + ".lock"
    with open(lock_path, "w") as lock:
        fcntl.flock(lock, fcntl.LOCK_EX)
        try:
            if os.path.exists(os.path.join(base, MARK)):
                return base, "cached"
            shutil.rmtree(base, ignore_errors=True)
            work = tempfile.mkdtemp(prefix="pyjelly-verif-mypyc-build-")
            try:
                shutil.copytree(os.path.join(root, "pyjelly"), os.path.join(work, "pyjelly"),
                                symlinks=True, ignore_dangling_symlinks=True,
                                ignore=shutil.ignore_patterns("__pycache__", "*.pyc", "*.so"))
                env = dict(os.environ, PYTHONDONTWRITEBYTECODE="1")
                env.pop("VERIF_REPO", None)
                r = subprocess.run([sys.executable, "-m", "mypyc", *FLAGS, *mods], cwd=work, env=env,
                                   capture_output=True, text=True, timeout=900)
                sos = [f for dp, _, fn in os.walk(os.path.join(work, "pyjelly")) for f in fn if f.endswith(".so")]
                if r.returncode != 0 or len(sos) < len(mods):
                    tail = (r.stdout + r.stderr).strip().splitlines()[-6:]
                    return None, "mypyc build failed: " + " | ".join(tail)[:600]
                shutil.rmtree(os.path.join(work, "build"), ignore_errors=True)
                with open(os.path.join(work, MARK), "w") as fh:
                    fh.write(key)
                os.rename(work, base)
                work = None
                _prune(base)
            finally:
                if work:
                    shutil.rmtree(work, ignore_errors=True)
        finally:
            fcntl.flock(lock, fcntl.LOCK_UN)
    try:
        os.unlink(lock_path)
    except OSError:
        pass
    return base, "built"
