"""Independent protobuf wire codec for the Jelly messages (no pyjelly, no rdf_pb2).

Field numbers copied from rdf.proto (Jelly 1.1.x).  Decoding is tolerant of unknown
fields; for every oneof the last member on the wire wins.

Neutral *wire* AST
  term   : ("iri", prefix_id, name_id) | ("bnode", s) | ("lit", lex, kind)
           | ("triple", s, p, o) | ("default",)            (slots may be None = unset)
           kind = None | ("lang", tag) | ("dt", id)
  row    : ("options", dict) | ("triple", s, p, o) | ("quad", s, p, o, g)
           | ("graph_start", g) | ("graph_end",) | ("namespace", name, iri_term|None)
           | ("name", id, value) | ("prefix", id, value) | ("datatype", id, value)
           | ("empty",)
"""
from __future__ import annotations


class WireError(Exception):
    pass


# ---------------------------------------------------------------- primitives
def enc_varint(n: int) -> bytes:
    if n < 0:
        n &= (1 << 64) - 1
    out = bytearray()
    while True:
        b = n & 0x7F
        n >>= 7
        if n:
            out.append(b | 0x80)
        else:
            out.append(b)
            return bytes(out)


def dec_varint(buf: bytes, pos: int) -> tuple[int, int]:
    result = 0
    shift = 0
    while True:
        if pos >= len(buf):
            raise WireError("truncated varint")
        b = buf[pos]
        pos += 1
        result |= (b & 0x7F) << shift
        if not b & 0x80:
            return result & ((1 << 64) - 1), pos
        shift += 7
        if shift > 63:
            raise WireError("varint too long")


def key(field: int, wt: int) -> bytes:
    return enc_varint((field << 3) | wt)


def f_varint(field: int, value: int) -> bytes:
    return key(field, 0) + enc_varint(value)


def f_bytes(field: int, value: bytes) -> bytes:
    return key(field, 2) + enc_varint(len(value)) + value


def f_str(field: int, value: str) -> bytes:
    return f_bytes(field, value.encode("utf-8"))


def fields(buf: bytes) -> list[tuple[int, int, object]]:
    """Split a message into (field_no, wire_type, value)."""
    out = []
    pos = 0
    n = len(buf)
    while pos < n:
        k, pos = dec_varint(buf, pos)
        fno, wt = k >> 3, k & 7
        if fno == 0:
            raise WireError("field number 0")
        if wt == 0:
            v, pos = dec_varint(buf, pos)
        elif wt == 1:
            if pos + 8 > n:
                raise WireError("truncated fixed64")
            v = buf[pos:pos + 8]
            pos += 8
        elif wt == 2:
            ln, pos = dec_varint(buf, pos)
            if pos + ln > n:
                raise WireError("truncated length-delimited field")
            v = buf[pos:pos + ln]
            pos += ln
        elif wt == 5:
            if pos + 4 > n:
                raise WireError("truncated fixed32")
            v = buf[pos:pos + 4]
            pos += 4
        else:
            raise WireError(f"unsupported wire type {wt}")
        out.append((fno, wt, v))
    return out


def _s(v: object) -> str:
    if not isinstance(v, (bytes, bytearray)):
        raise WireError("expected length-delimited")
    try:
        return bytes(v).decode("utf-8")
    except UnicodeDecodeError as e:
        raise WireError("invalid utf-8") from e


def _u32(v: object) -> int:
    if not isinstance(v, int):
        raise WireError("expected varint")
    return v & 0xFFFFFFFF


def _b(v: object) -> bytes:
    if not isinstance(v, (bytes, bytearray)):
        raise WireError("expected length-delimited")
    return bytes(v)


# ---------------------------------------------------------------- terms
def dec_iri(buf: bytes) -> tuple:
    p = n = 0
    for fno, wt, v in fields(buf):
        if fno == 1 and wt == 0:
            p = _u32(v)
        elif fno == 2 and wt == 0:
            n = _u32(v)
    return ("iri", p, n)


def enc_iri(t: tuple) -> bytes:
    out = b""
    if t[1]:
        out += f_varint(1, t[1])
    if t[2]:
        out += f_varint(2, t[2])
    return out


def dec_literal(buf: bytes) -> tuple:
    lex = ""
    kind = None
    for fno, wt, v in fields(buf):
        if fno == 1 and wt == 2:
            lex = _s(v)
        elif fno == 2 and wt == 2:
            kind = ("lang", _s(v))
        elif fno == 3 and wt == 0:
            kind = ("dt", _u32(v))
    return ("lit", lex, kind)


def enc_literal(t: tuple) -> bytes:
    out = b""
    if t[1]:
        out += f_str(1, t[1])
    kind = t[2]
    if kind is not None:
        if kind[0] == "lang":
            out += f_str(2, kind[1])
        else:
            out += f_varint(3, kind[1])  # explicit even when 0 (oneof presence)
    return out


_SPO = ("s", "p", "o")


def dec_triple_slots(buf: bytes, with_graph: bool) -> list:
    slots: list = [None, None, None, None]
    for fno, wt, v in fields(buf):
        if 1 <= fno <= 12:
            slot, kind = divmod(fno - 1, 4)
            if kind == 0 and wt == 2:
                slots[slot] = dec_iri(_b(v))
            elif kind == 1 and wt == 2:
                slots[slot] = ("bnode", _s(v))
            elif kind == 2 and wt == 2:
                slots[slot] = dec_literal(_b(v))
            elif kind == 3 and wt == 2:
                s3 = dec_triple_slots(_b(v), False)
                slots[slot] = ("triple", s3[0], s3[1], s3[2])
        elif with_graph and 13 <= fno <= 16 and wt == 2:
            if fno == 13:
                slots[3] = dec_iri(_b(v))
            elif fno == 14:
                slots[3] = ("bnode", _s(v))
            elif fno == 15:
                slots[3] = ("default",)
            else:
                slots[3] = dec_literal(_b(v))
    return slots


def enc_term_field(base: int, t: tuple) -> bytes:
    """Encode an s/p/o term at field numbers base+0..3."""
    k = t[0]
    if k == "iri":
        return f_bytes(base, enc_iri(t))
    if k == "bnode":
        return f_str(base + 1, t[1])
    if k == "lit":
        return f_bytes(base + 2, enc_literal(t))
    if k == "triple":
        return f_bytes(base + 3, enc_triple_body(t[1], t[2], t[3]))
    raise WireError(f"cannot encode term {t!r} in s/p/o slot")


def enc_graph_field(base: int, t: tuple) -> bytes:
    """Encode a graph term at base+0 (iri), +1 (bnode), +2 (default), +3 (literal)."""
    k = t[0]
    if k == "iri":
        return f_bytes(base, enc_iri(t))
    if k == "bnode":
        return f_str(base + 1, t[1])
    if k == "default":
        return f_bytes(base + 2, b"")
    if k == "lit":
        return f_bytes(base + 3, enc_literal(t))
    raise WireError(f"cannot encode graph term {t!r}")


def enc_triple_body(s, p, o) -> bytes:
    out = b""
    if s is not None:
        out += enc_term_field(1, s)
    if p is not None:
        out += enc_term_field(5, p)
    if o is not None:
        out += enc_term_field(9, o)
    return out


def enc_quad_body(s, p, o, g) -> bytes:
    out = enc_triple_body(s, p, o)
    if g is not None:
        out += enc_graph_field(13, g)
    return out


# ---------------------------------------------------------------- options
OPT_FIELDS = {
    1: ("stream_name", "str"),
    2: ("physical_type", "int"),
    3: ("generalized_statements", "bool"),
    4: ("rdf_star", "bool"),
    9: ("max_name_table_size", "int"),
    10: ("max_prefix_table_size", "int"),
    11: ("max_datatype_table_size", "int"),
    14: ("logical_type", "int"),
    15: ("version", "int"),
}
OPT_DEFAULTS = {
    "stream_name": "", "physical_type": 0, "generalized_statements": False,
    "rdf_star": False, "max_name_table_size": 0, "max_prefix_table_size": 0,
    "max_datatype_table_size": 0, "logical_type": 0, "version": 0,
}


def dec_options(buf: bytes) -> dict:
    o = dict(OPT_DEFAULTS)
    for fno, wt, v in fields(buf):
        spec = OPT_FIELDS.get(fno)
        if spec is None:
            continue
        name, ty = spec
        if ty == "str" and wt == 2:
            o[name] = _s(v)
        elif ty == "int" and wt == 0:
            o[name] = _u32(v)
        elif ty == "bool" and wt == 0:
            o[name] = bool(v)
    return o


def enc_options(o: dict) -> bytes:
    out = b""
    for fno in sorted(OPT_FIELDS):
        name, ty = OPT_FIELDS[fno]
        v = o.get(name, OPT_DEFAULTS[name])
        if ty == "str":
            if v:
                out += f_str(fno, v)
        elif ty == "bool":
            if v:
                out += f_varint(fno, 1)
        elif v:
            out += f_varint(fno, v)
    return out


# ---------------------------------------------------------------- rows
def dec_entry(buf: bytes) -> tuple[int, str]:
    i = 0
    val = ""
    for fno, wt, v in fields(buf):
        if fno == 1 and wt == 0:
            i = _u32(v)
        elif fno == 2 and wt == 2:
            val = _s(v)
    return i, val


def enc_entry(i: int, val: str) -> bytes:
    out = b""
    if i:
        out += f_varint(1, i)
    if val:
        out += f_str(2, val)
    return out


ROW_KINDS = {1: "options", 2: "triple", 3: "quad", 4: "graph_start", 5: "graph_end",
             6: "namespace", 9: "name", 10: "prefix", 11: "datatype"}


def dec_row(buf: bytes) -> tuple:
    row: tuple = ("empty",)
    for fno, wt, v in fields(buf):
        kind = ROW_KINDS.get(fno)
        if kind is None or wt != 2:
            continue
        body = _b(v)
        if kind == "options":
            row = ("options", dec_options(body))
        elif kind == "triple":
            s = dec_triple_slots(body, False)
            row = ("triple", s[0], s[1], s[2])
        elif kind == "quad":
            s = dec_triple_slots(body, True)
            row = ("quad", s[0], s[1], s[2], s[3])
        elif kind == "graph_start":
            g = None
            for f2, w2, v2 in fields(body):
                if w2 != 2:
                    continue
                if f2 == 1:
                    g = dec_iri(_b(v2))
                elif f2 == 2:
                    g = ("bnode", _s(v2))
                elif f2 == 3:
                    g = ("default",)
                elif f2 == 4:
                    g = dec_literal(_b(v2))
            row = ("graph_start", g)
        elif kind == "graph_end":
            row = ("graph_end",)
        elif kind == "namespace":
            name = ""
            iri = None
            for f2, w2, v2 in fields(body):
                if f2 == 1 and w2 == 2:
                    name = _s(v2)
                elif f2 == 2 and w2 == 2:
                    iri = dec_iri(_b(v2))
            row = ("namespace", name, iri)
        else:
            i, val = dec_entry(body)
            row = (kind, i, val)
    return row


def enc_row(row: tuple) -> bytes:
    k = row[0]
    if k == "options":
        return f_bytes(1, enc_options(row[1]))
    if k == "triple":
        return f_bytes(2, enc_triple_body(row[1], row[2], row[3]))
    if k == "quad":
        return f_bytes(3, enc_quad_body(row[1], row[2], row[3], row[4]))
    if k == "graph_start":
        body = b"" if row[1] is None else enc_graph_field(1, row[1])
        return f_bytes(4, body)
    if k == "graph_end":
        return f_bytes(5, b"")
    if k == "namespace":
        body = b""
        if row[1]:
            body += f_str(1, row[1])
        if row[2] is not None:
            body += f_bytes(2, enc_iri(row[2]))
        return f_bytes(6, body)
    if k == "name":
        return f_bytes(9, enc_entry(row[1], row[2]))
    if k == "prefix":
        return f_bytes(10, enc_entry(row[1], row[2]))
    if k == "datatype":
        return f_bytes(11, enc_entry(row[1], row[2]))
    if k == "empty":
        return b""
    raise WireError(f"unknown row kind {k}")


# ---------------------------------------------------------------- frames
class Frame:
    __slots__ = ("rows", "metadata")

    def __init__(self, rows: list[bytes] | None = None,
                 metadata: list[tuple[str, bytes]] | None = None) -> None:
        self.rows: list[bytes] = rows if rows is not None else []
        self.metadata: list[tuple[str, bytes]] = metadata if metadata is not None else []

    def encode(self) -> bytes:
        out = b"".join(f_bytes(1, r) for r in self.rows)
        for k, v in self.metadata:
            out += f_bytes(15, f_str(1, k) + f_bytes(2, v))
        return out

    def metadata_dict(self) -> dict[str, bytes]:
        return dict(self.metadata)


def dec_frame(buf: bytes) -> Frame:
    fr = Frame()
    for fno, wt, v in fields(buf):
        if fno == 1 and wt == 2:
            fr.rows.append(_b(v))
        elif fno == 15 and wt == 2:
            k = ""
            val = b""
            for f2, w2, v2 in fields(_b(v)):
                if f2 == 1 and w2 == 2:
                    k = _s(v2)
                elif f2 == 2 and w2 == 2:
                    val = _b(v2)
            fr.metadata.append((k, val))
    return fr


def split_delimited(buf: bytes) -> list[tuple[int, int, bytes]]:
    """Split a delimited stream into (start_offset, end_offset, frame_bytes)."""
    out = []
    pos = 0
    n = len(buf)
    while pos < n:
        start = pos
        ln, pos = dec_varint(buf, pos)
        if pos + ln > n:
            raise WireError("truncated frame")
        out.append((start, pos + ln, buf[pos:pos + ln]))
        pos += ln
    return out


def join_delimited(frames: list[bytes]) -> bytes:
    return b"".join(enc_varint(len(f)) + f for f in frames)


def read_stream(buf: bytes, delimited: bool) -> list[Frame]:
    if delimited:
        return [dec_frame(fb) for _, _, fb in split_delimited(buf)]
    return [dec_frame(buf)]


def write_stream(frames: list[Frame], delimited: bool) -> bytes:
    if delimited:
        return join_delimited([f.encode() for f in frames])
    if len(frames) != 1:
        raise WireError("non-delimited stream must have exactly one frame")
    return frames[0].encode()
