"""Producer and consumer nodes: the real pyjelly entry points driven from plans.

cfg keys (all JSON): integration, physical, logical, delimited, frame_size, max_names,
max_prefixes, max_datatypes, ns, generalized, rdf_star, stream_name, flow, entry.
ops: list of ["stmt", terms...] / ["ns", prefix, iri] in neutral JSON form.
"""
from __future__ import annotations

import io

from . import terms as T

PHYS = {"TRIPLES": 1, "QUADS": 2, "GRAPHS": 3}
LOGICALS = (0, 1, 2, 3, 4, 13, 14, 114)
FLOWS = ("Manual", "Bounded", "FlatTriples", "FlatQuads", "Graphs", "Datasets")


def default_cfg(**kw) -> dict:
    cfg = {
        "integration": "generic", "physical": "TRIPLES", "logical": 1, "delimited": True,
        "frame_size": 250, "max_names": 4000, "max_prefixes": 150, "max_datatypes": 32,
        "ns": False, "generalized": True, "rdf_star": True, "stream_name": "",
        "flow": None, "entry": "frames_gen",
    }
    cfg.update(kw)
    return cfg


def split_ops(ops):
    stmts = [T.from_json(o[1:]) for o in ops if o[0] == "stmt"]
    nss = [(o[1], o[2]) for o in ops if o[0] == "ns"]
    return stmts, nss


def make_flow(cfg):
    from pyjelly.serialize import flows as F
    name = cfg.get("flow")
    if not name:
        return None
    lt = cfg["logical"]
    fs = cfg["frame_size"]
    if name == "Manual":
        return F.ManualFrameFlow(logical_type=lt)
    if name == "Bounded":
        return F.BoundedFrameFlow(logical_type=lt, frame_size=fs)
    if name == "FlatTriples":
        return F.FlatTriplesFrameFlow(logical_type=lt, frame_size=fs)
    if name == "FlatQuads":
        return F.FlatQuadsFrameFlow(logical_type=lt, frame_size=fs)
    if name == "Graphs":
        return F.GraphsFrameFlow(logical_type=lt)
    if name == "Datasets":
        return F.DatasetsFrameFlow(logical_type=lt)
    raise ValueError(name)


def make_options(cfg):
    from pyjelly.options import LookupPreset, StreamParameters
    from pyjelly.serialize.streams import SerializerOptions
    params = StreamParameters(
        generalized_statements=cfg["generalized"], rdf_star=cfg["rdf_star"],
        delimited=cfg["delimited"], namespace_declarations=cfg["ns"],
        stream_name=cfg["stream_name"],
    )
    preset = LookupPreset(max_names=cfg["max_names"], max_prefixes=cfg["max_prefixes"],
                          max_datatypes=cfg["max_datatypes"])
    # an explicit flow object carries its own frame_size; options.frame_size may then say something else
    return SerializerOptions(flow=make_flow(cfg), frame_size=cfg.get("options_frame_size") or cfg["frame_size"],
                             logical_type=cfg["logical"], params=params, lookup_preset=preset)


def make_stream(cfg, options=None):
    from pyjelly.serialize.streams import GraphStream, QuadStream, TripleStream
    cls = {"TRIPLES": TripleStream, "QUADS": QuadStream, "GRAPHS": GraphStream}[cfg["physical"]]
    if options is None:
        options = make_options(cfg)
    if cfg["integration"] == "generic":
        from pyjelly.integrations.generic.serialize import GenericSinkTermEncoder
        return cls(encoder=GenericSinkTermEncoder(lookup_preset=options.lookup_preset),
                   options=options)
    return cls.for_rdflib(options)


def integ_mod(cfg):
    if cfg["integration"] == "generic":
        from pyjelly.integrations.generic import serialize as m
    else:
        from pyjelly.integrations.rdflib import serialize as m
    return m


def conv_stmt(cfg):
    if cfg["integration"] == "generic":
        if cfg.get("odd_str"):
            w = T.AlternateSpelling()
            return lambda st: T.stmt_to_generic(st, w)
        return T.stmt_to_generic
    return T.stmt_to_rdflib


def input_gen(cfg, stmts, sim=None, gate=None):
    """Instrumented statement iterator: logs every pull; ``gate(i)`` may block it."""
    conv = conv_stmt(cfg)

    def gen():
        for i, st in enumerate(stmts):
            if sim is not None:
                sim.event("pull", i)
            if gate is not None:
                gate(i)
            yield conv(st)
        if sim is not None:
            sim.event("pull_end")
    return gen()


def make_container(cfg, stmts, nss):
    """Build a GenericStatementSink / rdflib Graph / Dataset holding the statements."""
    if cfg["integration"] == "generic":
        from pyjelly.integrations.generic.generic_sink import GenericStatementSink
        sink = GenericStatementSink()
        for p, iri in nss:
            sink.bind(p, T.to_generic(("iri", iri)))
        conv = conv_stmt(cfg)
        for st in stmts:
            sink.add(conv(st))
        return sink
    import rdflib
    if stmts and len(stmts[0]) == 4 or cfg["physical"] != "TRIPLES":
        ds = rdflib.Dataset()
        for p, iri in nss:
            ds.bind(p, rdflib.URIRef(iri), override=True, replace=True)
        for st in stmts:
            s, p, o = (T.to_rdflib(t) for t in st[:3])
            g = st[3] if len(st) == 4 else T.DEFAULT
            ctx = ds.default_graph if g == T.DEFAULT else ds.get_context(T.to_rdflib(g))
            ctx.add((s, p, o))
        return ds
    g = rdflib.Graph(bind_namespaces="none") if cfg.get("bare") else rdflib.Graph()
    for p, iri in nss:
        g.bind(p, rdflib.URIRef(iri), override=True, replace=True)
    for st in stmts:
        g.add(tuple(T.to_rdflib(t) for t in st))
    return g


def frames_iter(cfg, ops, sim=None, gate=None, stream_box=None):
    """Generator of pyjelly frames for the configured entry point (frames-level entries)."""
    stmts, nss = split_ops(ops)
    m = integ_mod(cfg)
    entry = cfg["entry"]
    if entry == "frames_gen":
        stream = make_stream(cfg)
        if stream_box is not None:
            stream_box.append(stream)
        return m.stream_frames(stream, input_gen(cfg, stmts, sim, gate))
    if entry == "frames_sink":
        stream = make_stream(cfg)
        if stream_box is not None:
            stream_box.append(stream)
        return m.stream_frames(stream, make_container(cfg, stmts, nss))
    if entry == "flat_frames":
        return m.flat_stream_to_frames(input_gen(cfg, stmts, sim, gate), make_options(cfg))
    if entry == "flat_frames_guess":
        return m.flat_stream_to_frames(input_gen(cfg, stmts, sim, gate))
    raise ValueError(entry)


def wrote_delimited(cfg) -> bool:
    """Whether the bytes of this configuration are a delimited stream."""
    if cfg["entry"] in ("frames_gen", "frames_sink", "graph_serialize"):
        return bool(cfg["delimited"])
    return True


def writer_for(cfg):
    from pyjelly.serialize.ioutils import write_delimited, write_single
    return write_delimited if cfg["delimited"] else write_single


def serialize_input(cfg, ops, sim=None) -> bytes:
    """Bytes of the real writer for checks that only need a valid stream to work on: if the writer refuses the
    generated input, the run is skipped (SkipRun), not judged."""
    from .kernel import SkipRun
    try:
        return serialize(cfg, ops, sim)
    except Exception as e:  # noqa: BLE001
        raise SkipRun(f"writer refused the generated input: {type(e).__name__}: {e}") from None


def serialize(cfg, ops, sim=None, stream_box=None) -> bytes:
    """Run a serializer entry point to completion and return the bytes written."""
    out = io.BytesIO()
    entry = cfg["entry"]
    stmts, nss = split_ops(ops)
    m = integ_mod(cfg)
    if entry in ("frames_gen", "frames_sink", "flat_frames", "flat_frames_guess"):
        write = writer_for(cfg)
        if entry.startswith("flat_frames"):
            from pyjelly.serialize.ioutils import write_delimited
            write = write_delimited
        for fr in frames_iter(cfg, ops, sim, None, stream_box):
            if sim is not None:
                sim.event("frame", len(fr.rows))
            write(fr, out)
    elif entry == "flat_file":
        m.flat_stream_to_file(input_gen(cfg, stmts, sim), out, make_options(cfg))
    elif entry == "flat_file_guess":
        m.flat_stream_to_file(input_gen(cfg, stmts, sim), out)
    elif entry == "grouped_file":
        groups = cfg.get("groups") or [len(stmts)]
        m.grouped_stream_to_file(group_gen(cfg, stmts, nss, groups), out, options=make_options(cfg))
    elif entry == "grouped_file_guess":
        groups = cfg.get("groups") or [len(stmts)]
        m.grouped_stream_to_file(group_gen(cfg, stmts, nss, groups), out)
    elif entry == "sink_serialize":
        make_container(cfg, stmts, nss).serialize(out)
    elif entry == "graph_serialize":
        c = make_container(cfg, stmts, nss)
        opts = make_options(cfg)
        if cfg.get("pass_stream"):
            stream = make_stream(cfg, opts)
            if stream_box is not None:
                stream_box.append(stream)
            c.serialize(destination=out, format="jelly", stream=stream, options=opts)
        else:
            c.serialize(destination=out, format="jelly", options=opts)
    elif entry == "graph_serialize_guess":
        make_container(cfg, stmts, nss).serialize(destination=out, format="jelly")
    else:
        raise ValueError(entry)
    return out.getvalue()


def group_gen(cfg, stmts, nss, groups):
    """Yield one container per group size (grouped serialization input)."""
    pos = 0
    first = True
    per_group = cfg.get("ns_groups")
    for k, n in enumerate(groups):
        chunk = stmts[pos:pos + n]
        pos += n
        if per_group:
            # every input carries its own bindings (subsets, other orders, labels bound to another namespace)
            yield make_container(cfg, chunk, [tuple(b) for b in per_group[k]])
        else:
            yield make_container(cfg, chunk, nss if (first or cfg.get("ns_all_groups")) else [])
        first = False


# ------------------------------------------------------------------ parsing
PARSE_ENTRIES = ("flat", "grouped", "to_graph")


def parse_mod(integration):
    if integration == "generic":
        from pyjelly.integrations.generic import parse as m
    else:
        from pyjelly.integrations.rdflib import parse as m
    return m


def container_items(integration, c):
    """Statements (container order) and namespaces of a parsed sink/Graph/Dataset."""
    if integration == "generic":
        sts = [T.item_from_generic(x) for x in c]
        nss = [("ns", p, T.from_generic(i)) for p, i in c.namespaces]
        return sts, nss
    import rdflib
    if isinstance(c, rdflib.Dataset):
        sts = []
        for s, p, o, g in c.quads():
            sts.append((T.from_rdflib(s), T.from_rdflib(p), T.from_rdflib(o),
                        T.from_rdflib(g, graph_slot=True)))
    else:
        sts = [tuple(T.from_rdflib(x) for x in t) for t in c]
    nss = [("ns", p, ("iri", str(i))) for p, i in c.namespaces()]
    return sts, nss


def parse_flat(integration, fobj, strict=False):
    """Lazy generator of neutral items from parse_jelly_flat."""
    m = parse_mod(integration)
    conv = T.item_from_generic if integration == "generic" else T.item_from_rdflib
    for item in m.parse_jelly_flat(fobj, logical_type_strict=strict):
        yield conv(item)


def parse_grouped(integration, fobj, strict=False, frame_metadata=None):
    """Lazy generator of (statements, namespaces) per yielded sink."""
    m = parse_mod(integration)
    kw = {}
    if frame_metadata is not None:
        kw["frame_metadata"] = frame_metadata
    for sink in m.parse_jelly_grouped(fobj, logical_type_strict=strict, **kw):
        yield container_items(integration, sink)


def parse_grouped_retained(integration, fobj, strict=False):
    """The consumer that keeps what it is given: every sink is collected first (list(parse_jelly_grouped(f))) and
    only looked at once the stream has ended."""
    m = parse_mod(integration)
    kept = list(m.parse_jelly_grouped(fobj, logical_type_strict=strict))
    return [container_items(integration, sink) for sink in kept], len({id(s) for s in kept})


def parse_to_graph(integration, fobj, via_plugin=False):
    m = parse_mod(integration)
    if via_plugin:
        if integration == "generic":
            from pyjelly.integrations.generic.generic_sink import GenericStatementSink
            s = GenericStatementSink()
            s.parse(fobj)
            return container_items(integration, s)
        import rdflib
        ds = rdflib.Graph() if via_plugin == "graph" else rdflib.Dataset()
        # rdflib creates a namespace manager lazily, binding its defaults (override=True) at that moment: on a
        # never-touched Dataset that happens at the first namespaces() call AFTER parsing and re-binds e.g.
        # 'schema' over a declared 'sdo' - with rdflib's own parsers too.  The target here is a container whose
        # namespace manager already exists, as it does for any container that has been used before.
        list(ds.namespaces())
        ds.parse(source=fobj, format="jelly")
        return container_items(integration, ds)
    return container_items(integration, m.parse_jelly_to_graph(fobj))


def run_collect(gen):
    """Drive a lazy parser; returns (items, exception|None)."""
    items = []
    try:
        for it in gen:
            items.append(it)
    except Exception as e:  # noqa: BLE001
        return items, e
    return items, None
