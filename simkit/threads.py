"""Engine B: real threads, exactly one runnable at a time (baton passing); pre-emption points
are ``sys.settrace`` line events inside files under <repo>/pyjelly.  Who runs next, and after
how many line events the running thread is pre-empted, are tape decisions."""
from __future__ import annotations

import sys
import threading

from .kernel import HarnessError, Sim


class BatonScheduler:
    def __init__(self, sim: Sim, prefix: str, max_gap: int = 48) -> None:
        self.sim = sim
        self.prefix = prefix
        self.cond = threading.Condition()
        self.current: int | None = None
        self.alive: list[int] = []
        self.countdown = 0
        self.max_gap = max_gap
        self.switches = 0
        self.line_events = 0
        self.results: dict[int, object] = {}
        self.errors: dict[int, BaseException] = {}
        self.aborted = False

    # called by the baton holder only
    def _next_gap(self) -> int:
        return 1 + self.sim.choose(self.max_gap, "gap")

    def _handover(self, me: int, finished: bool) -> None:
        with self.cond:
            if finished and me in self.alive:
                self.alive.remove(me)
            cands = [t for t in self.alive if t != me] if not finished else list(self.alive)
            if not cands:
                if finished:
                    self.current = None
                    self.cond.notify_all()
                return
            if not finished:
                cands = list(self.alive)          # may also keep running
            nxt = cands[self.sim.choose(len(cands), "thread")]
            self.countdown = self._next_gap()
            if nxt != me:
                self.switches += 1
                self.sim.event("switch", me, nxt, self.line_events)
            self.current = nxt
            self.cond.notify_all()
            if not finished:
                while self.current != me and not self.aborted:
                    self.cond.wait(timeout=30)
                    if self.current != me and not self.aborted and not self._progress():
                        self.aborted = True
                        self.cond.notify_all()

    def _progress(self) -> bool:
        return True

    def _trace(self, me: int):
        prefix = self.prefix
        sched = self

        def local(frame, event, arg):
            if event == "line":
                sched.line_events += 1
                sched.countdown -= 1
                if sched.countdown <= 0:
                    sched._handover(me, False)
            return local

        def glob(frame, event, arg):
            if event == "call" and frame.f_code.co_filename.startswith(prefix):
                return local
            return None
        return glob

    def run(self, jobs: list) -> tuple[dict, dict]:
        """jobs: list of zero-argument callables. Returns (results, errors) by index."""
        n = len(jobs)
        self.alive = list(range(n))
        threads = []

        def body(i: int):
            with self.cond:
                while self.current != i and not self.aborted:
                    self.cond.wait(timeout=30)
            if self.aborted:
                return
            sys.settrace(self._trace(i))
            try:
                self.results[i] = jobs[i]()
            except BaseException as e:  # noqa: BLE001
                self.errors[i] = e
            finally:
                sys.settrace(None)
                self._handover(i, True)

        for i in range(n):
            t = threading.Thread(target=body, args=(i,), name=f"simthread-{i}", daemon=True)
            threads.append(t)
            t.start()
        with self.cond:
            first = self.sim.choose(n, "first_thread")
            self.countdown = self._next_gap()
            self.current = first
            self.sim.event("start", first)
            self.cond.notify_all()
        for t in threads:
            t.join(timeout=120)
            if t.is_alive():
                self.aborted = True
                with self.cond:
                    self.cond.notify_all()
                raise HarnessError("baton scheduler: a simulated thread did not finish")
        self.sim.count("thread_switches", self.switches)
        self.sim.count("thread_line_events", self.line_events)
        return self.results, self.errors
