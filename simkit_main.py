"""Entry script for ./check (kept separate from the simkit package so that no module is
loaded twice under two names)."""
import os
import sys

HERE = os.path.dirname(os.path.abspath(__file__))
if HERE not in sys.path:
    sys.path.insert(1, HERE)
sys.dont_write_bytecode = True

from simkit import runner  # noqa: E402

if __name__ == "__main__":
    sys.exit(runner.main(sys.argv[1:]))
