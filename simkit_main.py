"""Entry script for ./check (kept separate from the simkit package so that no module is
loaded twice under two names)."""
import os
import sys

HERE = os.path.dirname(os.path.abspath(__file__))
if HERE not in sys.path:
    sys.path.insert(1, HERE)
sys.dont_write_bytecode = True

from simkit import runner  # noqa: E402

if __name__ == "__main__":
    try:
        rc = runner.main(sys.argv[1:])
    except SystemExit:
        raise
    except BaseException as e:  # noqa: BLE001
        # an uncaught exception would end the interpreter with status 1 - the VIOLATION status.  Whatever goes wrong
        # in the machinery itself (a failed build, a full disk, an interrupt) is a harness error: status 2.
        import traceback
        traceback.print_exc()
        print(f"HARNESS-ERROR {type(e).__name__}: {e}")
        rc = 2
    sys.exit(rc)
