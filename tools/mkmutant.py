#!/venv/bin/python
"""Build a mutant patch: tools/mkmutant.py <out.patch> <repo-relative-file> <old> <new> [<file> <old> <new> ...]
Each <old> must occur exactly once in the file (or pass @N: prefix to pick the N-th, 1-based)."""
import difflib
import os
import sys

repo = os.environ.get("VERIF_REPO", "/repo")
out = sys.argv[1]
args = sys.argv[2:]
edits: dict[str, str] = {}
orig: dict[str, str] = {}
for i in range(0, len(args), 3):
    rel, old, new = args[i:i + 3]
    if rel not in edits:
        with open(os.path.join(repo, rel), encoding="utf-8") as fh:
            orig[rel] = edits[rel] = fh.read()
    nth = 0
    if old.startswith("@") and ":" in old[:4]:
        nth = int(old[1:old.index(":")])
        old = old[old.index(":") + 1:]
    src = edits[rel]
    cnt = src.count(old)
    if cnt == 0 or (cnt > 1 and not nth):
        sys.exit(f"{rel}: pattern occurs {cnt} times: {old!r}")
    if nth:
        pos = -1
        for _ in range(nth):
            pos = src.index(old, pos + 1)
        edits[rel] = src[:pos] + new + src[pos + len(old):]
    else:
        edits[rel] = src.replace(old, new)
chunks = []
for rel in edits:
    chunks.extend(difflib.unified_diff(orig[rel].splitlines(keepends=True), edits[rel].splitlines(keepends=True),
                                       f"a/{rel}", f"b/{rel}"))
with open(out, "w", encoding="utf-8") as fh:
    fh.writelines(chunks)
print(f"wrote {out} ({len(chunks)} lines)")
