#!/bin/bash
# Run every quick check under a range of VERIF_SEED values; print only failures and a summary line per seed.
cd "$(dirname "$0")/.."
FROM=${1:-2}; TO=${2:-21}
for s in $(seq $FROM $TO); do
  bad=0
  for c in C01 C02 C03 C04 C05 C06 C07 C08 C09 C10 C11 C12 C13 C14 C15 C16 C17 C18 C19 C20; do
    out=$(VERIF_SEED=$s VERIF_NO_EVIDENCE=1 ./check $c --tier quick 2>&1); rc=$?
    if [ $rc -ne 0 ]; then bad=$((bad+1)); echo "SEED $s $c rc=$rc"; echo "$out" | grep -E "VIOLATION|signature|message|HARNESS" | cut -c1-500; mkdir -p sweep_replays; for f in $(echo "$out" | grep -o 'replay=[^ ]*' | cut -d= -f2); do cp "$f" sweep_replays/ 2>/dev/null; done; fi
  done
  echo "seed $s done: $bad failing checks"
done
