#!/venv/bin/python
"""Import independently written breaking changes: tools/import_seeded.py <srcdir> <round> [suffix map x=e,y=f]
Each <srcdir>/<Cxx>-<x|y>/ (patch.diff, demo.py, NOTES.md) becomes /verif/seeded/<Cxx>-<e|f>/ with a meta.json
holding the validation (tools/seeded.py validate) and which quick checks report it (tools/seeded.py detect)."""
import json
import os
import re
import shutil
import subprocess
import sys

VERIF = os.path.dirname(os.path.dirname(os.path.abspath(__file__)))
src, rnd = sys.argv[1], int(sys.argv[2])
smap = dict(p.split("=") for p in (sys.argv[3] if len(sys.argv) > 3 else "x=e,y=f").split(","))
extra = {}
for a in sys.argv[4:]:
    k, v = a.split("=")
    extra[k] = v.split(",")
for name in sorted(os.listdir(src)):
    m = re.fullmatch(r"(C\d\d)-(\w)", name)
    if not m or not os.path.isdir(os.path.join(src, name)):
        continue
    cid, suf = m.group(1), smap.get(m.group(2), m.group(2))
    dst = os.path.join(VERIF, "seeded", f"{cid}-{suf}")
    os.makedirs(dst, exist_ok=True)
    for f in ("patch.diff", "demo.py", "NOTES.md"):
        shutil.copy(os.path.join(src, name, f), os.path.join(dst, f))
    compiled = os.environ.get("IMPORT_COMPILED") == "1" and not name.endswith(tuple(os.environ.get("IMPORT_NOT_COMPILED", "-").split(",")))
    if compiled:
        json.dump({"needs_compiled": True}, open(os.path.join(dst, "meta.json"), "w"))
    val = json.loads(subprocess.run([os.path.join(VERIF, "tools", "seeded.py"), "validate", dst], capture_output=True,
                                    text=True).stdout)
    checks = [cid] + extra.get(f"{cid}-{suf}", [])
    det = json.loads(subprocess.run([os.path.join(VERIF, "tools", "seeded.py"), "detect", dst, *checks],
                                    capture_output=True, text=True).stdout)
    notes = open(os.path.join(dst, "NOTES.md"), encoding="utf-8").read()
    meta = {
        "property": cid, "round": rnd,
        "origin": "written by a sub-agent that was given only the property texts and a scratch worktree of /repo "
                  "(HEAD after the review-round-2 repairs); nothing from /verif",
        "needs_to_manifest": " ".join(notes.split())[:900],
        "validated": {"demo_exit_on_unchanged_tree": val.get("demo_unpatched"), "patch_applies": val.get("patch_applies"),
                      "demo_exit_with_patch": val.get("demo_patched"), "repository_suite_with_patch": val.get("suite_tail"),
                      "valid": val.get("valid")},
        "what_was_run": [f"tools/seeded.py validate seeded/{cid}-{suf}", f"tools/seeded.py detect seeded/{cid}-{suf} {' '.join(checks)}"],
        "quick_checks": det,
        "caught_by": [c for c, r in det.items() if isinstance(r, dict) and r.get("exit") == 1],
    }
    if compiled:
        meta["needs_compiled"] = True       # shows only in a mypyc build: detection builds the scratch copy
    json.dump(meta, open(os.path.join(dst, "meta.json"), "w"), indent=1, ensure_ascii=False)
    print(f"{cid}-{suf}: valid={val.get('valid')} caught_by={meta['caught_by']} "
          f"{ {c: r.get('exit') for c, r in det.items() if isinstance(r, dict)} }", flush=True)
