#!/venv/bin/python
"""Regenerate MANIFEST.json from the check modules that exist (run from /verif)."""
import importlib
import json
import os
import sys

HERE = os.path.dirname(os.path.dirname(os.path.abspath(__file__)))
sys.path.insert(0, HERE)
ALL = [f"C{i:02d}" for i in range(1, 21)]
NA_REASONS = {}

checks = []
na = []
for cid in ALL:
    path = os.path.join(HERE, "checks", f"{cid.lower()}.py")
    if not os.path.exists(path):
        na.append({"property_id": cid, "reason": NA_REASONS.get(cid, "check not built yet in this session (work in progress; see DESIGN.md section 6 for the planned scenario)")})
        continue
    mod = importlib.import_module(f"checks.{cid.lower()}")
    if getattr(mod, "NOT_APPLICABLE", None):
        na.append({"property_id": cid, "reason": mod.NOT_APPLICABLE})
        continue
    checks.append({
        "property_id": cid,
        "quick_cmd": f"./check {cid} --tier quick",
        "thorough_cmd": f"./check {cid} --tier thorough",
        "evidence_file": f"/verif/evidence/{cid}.json",
        "replay_cmd_template": "./check --replay {path}",
        "engine": getattr(mod, "ENGINE", "simkit"),
        "level_claimed": {"category": mod.LEVEL,
                          "text": getattr(mod, "LEVEL_TEXT", mod.RULE),
                          "design_ref": f"DESIGN.md section 6, {cid}"},
        "level_note": getattr(mod, "LEVEL_NOTE", "; ".join(getattr(mod, "ASSUMPTIONS", [])) or "sampled, not exhaustive"),
        "technique": getattr(mod, "TECHNIQUE", "deterministic simulation: seeded search over workloads, knobs, schedules and faults against a reference model"),
    })

manifest = {
    "version": 1,
    "setup_cmd": "/venv/bin/python -B tools/setup_check.py",
    "hooks": {
        "guard": "PYJELLY_VERIF",
        "enable": "no hooks were needed: every seam (stream arguments, iterators, generators, public classes, sys.settrace) already exists; checks import pyjelly from /repo's working tree via sys.path (VERIF_REPO, default /repo)",
        "baseline_off_cmd": "cd /repo && /venv/bin/python -m pytest -ra -q -p no:cacheprovider --timeout=900 --continue-on-collection-errors",
        "source_commits": [],
        "add_only": True,
    },
    "engines": [
        {"name": "simkit", "path": "/verif/simkit",
         "serves_properties": [c["property_id"] for c in checks],
         "kind_free_text": "hand-written deterministic simulator: one PRNG + choice tape per run, cooperative generator scheduler (engine A), baton-passing threads with settrace pre-emption (engine B), simulated byte channel with fault kinds, independent protobuf wire codec + reference Jelly decoder/encoder as oracles, ddmin minimiser, replay files; a fixed share of the runs of every check is executed, under the same tape, in child interpreters: python -O, a mypyc build of the working tree (simkit/mypyc_build.py, rebuilt from /repo on demand), protobuf's pure-Python backend"},
    ],
    "checks": checks,
    "not_applicable": na,
    "notes": "All commands run from /verif. Exit 0 = held (KNOWN-FINDING lines allowed), 1 = VIOLATION, 2 = harness error. VERIF_SEED / VERIF_TIER / VERIF_WORKERS / VERIF_RUNS / VERIF_REPO are honoured. See DESIGN.md.",
}
with open(os.path.join(HERE, "MANIFEST.json"), "w") as fh:
    json.dump(manifest, fh, indent=1)
print(f"claimed {len(checks)}: {[c['property_id'] for c in checks]}; not_applicable {len(na)}")
