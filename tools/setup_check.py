"""MANIFEST.setup_cmd: nothing to build; verify the interpreter, the third-party runtime and that
pyjelly resolves to the repository working tree (not the stale compiled wheel in site-packages)."""
import os
import sys

HERE = os.path.dirname(os.path.dirname(os.path.abspath(__file__)))
sys.path.insert(0, HERE)
import google.protobuf  # noqa: E402
import rdflib  # noqa: E402

from simkit import repo  # noqa: E402

root = repo.setup()
import pyjelly  # noqa: E402

from simkit import mypyc_build  # noqa: E402

build, note = mypyc_build.ensure_build(root)
print(f"mypyc build of the working tree: {build or 'not available'} ({note})")
print(f"ok: python {sys.version.split()[0]} protobuf {google.protobuf.__version__} rdflib {rdflib.__version__} "
      f"pyjelly from {os.path.dirname(pyjelly.__file__)} (repo {root})")
