#!/bin/bash
# Run the thorough tier of the given checks (default: all); print a summary line per check and details of failures.
cd "$(dirname "$0")/.."
CHECKS=${@:-C01 C02 C03 C04 C05 C06 C07 C08 C09 C10 C11 C12 C13 C14 C15 C16 C17 C18 C19 C20}
for c in $CHECKS; do
  out=$(VERIF_NO_EVIDENCE=${VERIF_NO_EVIDENCE:-1} ./check $c --tier thorough 2>&1); rc=$?
  echo "$out" | tail -2 | cut -c1-300
  if [ $rc -ne 0 ]; then echo "THOROUGH $c rc=$rc"; echo "$out" | grep -E "VIOLATION|signature|message|HARNESS" | cut -c1-600; mkdir -p sweep_replays; for f in $(echo "$out" | grep -o 'replay=[^ ]*' | cut -d= -f2); do cp "$f" sweep_replays/ 2>/dev/null; done; fi
done
