#!/venv/bin/python
"""Validate a seeded change and run our checks against it.

  tools/seeded.py validate <dir>            # patch applies, suite passes, demo fails with / passes without
  tools/seeded.py detect <dir> [C01 C02..]  # run the quick checks (default: the property in meta/ dir name) on a
                                            # scratch copy with the patch applied; reports which checks fire
<dir> holds patch.diff and demo.py.  Scratch copies live under a mkdtemp directory and are removed.
"""
import json
import os
import re
import shutil
import subprocess
import sys
import tempfile

VERIF = os.path.dirname(os.path.dirname(os.path.abspath(__file__)))
REPO = os.path.realpath(os.environ.get("VERIF_REPO_BASE", "/repo"))


def scratch():
    tmp = tempfile.mkdtemp(prefix="pyjelly-seed-")
    dst = os.path.join(tmp, "repo")
    shutil.copytree(REPO, dst, symlinks=True,
                    ignore=shutil.ignore_patterns(".git", "__pycache__", "*.pyc", ".pytest_cache", "docs"))
    return tmp, dst


def apply(dst, patch):
    r = subprocess.run(["patch", "-p1", "-s", "-d", dst, "-i", os.path.abspath(patch)], capture_output=True, text=True)
    return r.returncode == 0, r.stdout + r.stderr


def run_demo(dst, demo):
    env = dict(os.environ, PYTHONDONTWRITEBYTECODE="1")
    env.pop("VERIF_REPO", None)
    r = subprocess.run(["/venv/bin/python", "-B", os.path.abspath(demo)], cwd=dst, env=env, capture_output=True,
                       text=True, timeout=600)
    return r.returncode, (r.stdout + r.stderr)[-400:]


def run_suite(dst):
    env = dict(os.environ, PYTHONDONTWRITEBYTECODE="1")
    env.pop("VERIF_REPO", None)
    r = subprocess.run(["/venv/bin/python", "-B", "-m", "pytest", "-q", "-p", "no:cacheprovider", "--timeout=900"],
                       cwd=dst, env=env, capture_output=True, text=True)
    tail = (r.stdout or "").strip().splitlines()[-1:] or [""]
    return r.returncode, tail[0]


def validate(d):
    out = {}
    tmp, dst = scratch()
    try:
        rc0, o0 = run_demo(dst, os.path.join(d, "demo.py"))
        out["demo_unpatched"] = rc0
        ok, msg = apply(dst, os.path.join(d, "patch.diff"))
        out["patch_applies"] = ok
        if not ok:
            out["patch_msg"] = msg[-300:]
            return out
        rc1, o1 = run_demo(dst, os.path.join(d, "demo.py"))
        out["demo_patched"] = rc1
        out["demo_patched_out"] = o1[-200:]
        rcs, tail = run_suite(dst)
        out["suite"] = rcs
        out["suite_tail"] = tail
        out["valid"] = rc0 == 0 and rc1 != 0 and rcs == 0
    finally:
        shutil.rmtree(tmp, ignore_errors=True)
    return out


def needs_compiled(d):
    """meta.json may say that the change only shows in a mypyc build of the tree."""
    try:
        with open(os.path.join(d, "meta.json"), encoding="utf-8") as fh:
            return bool(json.load(fh).get("needs_compiled"))
    except (OSError, ValueError):
        return False


def detect(d, checks):
    tmp, dst = scratch()
    res = {}
    try:
        ok, msg = apply(dst, os.path.join(d, "patch.diff"))
        if not ok:
            return {"error": "patch does not apply: " + msg[-200:]}
        for c in checks:
            env = dict(os.environ, VERIF_REPO=dst, VERIF_NO_EVIDENCE="1")
            if not (os.environ.get("VERIF_WITH_COMPILED") or needs_compiled(d)):
                env["VERIF_NO_COMPILED"] = "1"      # (a mypyc build per scratch copy costs ~25 s; opt in)
            r = subprocess.run([os.path.join(VERIF, "check"), c, "--tier", "quick"], env=env, capture_output=True,
                               text=True, cwd=VERIF)
            sigs = re.findall(r"signature=(\{.*?\}) count=(\d+)", r.stdout)
            res[c] = {"exit": r.returncode, "signatures": [s for s, _ in sigs][:4]}
            if r.returncode == 2:
                res[c]["harness"] = r.stdout[-300:]
            for f in re.findall(r"replay=(\S+)", r.stdout):
                try:
                    os.unlink(f)
                except OSError:
                    pass
    finally:
        shutil.rmtree(tmp, ignore_errors=True)
    return res


if __name__ == "__main__":
    cmd, d = sys.argv[1], sys.argv[2]
    if cmd == "validate":
        print(json.dumps(validate(d), indent=1))
    else:
        checks = sys.argv[3:] or [re.search(r"(C\d\d)", d).group(1)]
        print(json.dumps(detect(d, checks), indent=1))
