#!/bin/bash
# Run every quick check once (VERIF_SEED as given, default 1); print only failures. Use before committing
# any change to shared generators / simkit.
cd "$(dirname "$0")/.."
bad=0
for c in C01 C02 C03 C04 C05 C06 C07 C08 C09 C10 C11 C12 C13 C14 C15 C16 C17 C18 C19 C20; do
  out=$(./check $c --tier quick 2>&1); rc=$?
  if [ $rc -ne 0 ]; then bad=$((bad+1)); echo "FAIL $c rc=$rc"; echo "$out" | grep -E "VIOLATION|signature|message|HARNESS" | cut -c1-400; fi
done
echo "quick-all: $bad failing"
exit $bad
