#!/bin/bash
# Run the repository's own suite on a scratch copy of /repo (running it in place rewrites tracked files).
set -e
T=$(mktemp -d /tmp/pyjelly-suite-XXXX)
rsync -a --exclude .git --exclude docs /repo/ "$T/repo/"
cd "$T/repo" && env -u VERIF_REPO PYTHONDONTWRITEBYTECODE=1 /venv/bin/python -B -m pytest -q -p no:cacheprovider --timeout=900 "$@" 2>&1 | tail -3
rm -rf "$T"
