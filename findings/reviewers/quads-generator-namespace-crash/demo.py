"""C01/C03: a quad sequence cannot be written when namespace declarations are enabled."""
import os, sys; sys.path.insert(0, os.getcwd())
import io
import pyjelly
assert pyjelly.__file__.startswith(os.getcwd()), pyjelly.__file__

from pyjelly import jelly
from pyjelly.integrations.generic.generic_sink import IRI, DefaultGraph, Literal, Quad, Triple
from pyjelly.integrations.generic.parse import parse_jelly_flat
from pyjelly.integrations.generic.serialize import (
    GenericSinkTermEncoder,
    flat_stream_to_file,
    stream_frames,
)
from pyjelly.options import StreamParameters
from pyjelly.serialize.streams import GraphStream, SerializerOptions

S, P = IRI("http://example.org/s"), IRI("http://example.org/p")
quads = [Quad(S, P, Literal("1"), DefaultGraph), Quad(S, P, Literal("2"), IRI("http://example.org/g"))]
triples = [Triple(S, P, Literal("1")), Triple(S, P, Literal("2"))]
params = StreamParameters(generalized_statements=True, rdf_star=True, namespace_declarations=True)
failures = []


def attempt(label, fn, expected):
    try:
        got = fn()
    except Exception as exc:  # noqa: BLE001
        failures.append(f"{label}: {type(exc).__name__}: {exc}")
        return
    if got != expected:
        failures.append(f"{label}: round trip mismatch")


def flat(statements, logical):
    out = io.BytesIO()
    opts = SerializerOptions(logical_type=logical, params=params)
    flat_stream_to_file((s for s in statements), out, options=opts)
    return list(parse_jelly_flat(io.BytesIO(out.getvalue())))


def graphs(statements):
    opts = SerializerOptions(logical_type=jelly.LOGICAL_STREAM_TYPE_FLAT_QUADS, params=params)
    stream = GraphStream(encoder=GenericSinkTermEncoder(lookup_preset=opts.lookup_preset), options=opts)
    out = io.BytesIO()
    from pyjelly.serialize.ioutils import write_delimited

    for frame in stream_frames(stream, (s for s in statements)):
        write_delimited(frame, out)
    return list(parse_jelly_flat(io.BytesIO(out.getvalue())))


# control: the very same call works for triples
attempt("generic TRIPLES generator", lambda: flat(triples, jelly.LOGICAL_STREAM_TYPE_FLAT_TRIPLES), triples)
attempt("generic QUADS generator", lambda: flat(quads, jelly.LOGICAL_STREAM_TYPE_FLAT_QUADS), quads)
attempt("generic GRAPHS generator", lambda: graphs(quads), quads)

# rdflib integration has the same code
import rdflib
from pyjelly.integrations.rdflib.parse import Quad as RQuad
from pyjelly.integrations.rdflib.serialize import flat_stream_to_file as rdflib_flat_stream_to_file

rq = [
    RQuad(rdflib.URIRef("http://example.org/s"), rdflib.URIRef("http://example.org/p"), rdflib.Literal("1"), rdflib.URIRef("http://example.org/g"))
]


def rdflib_quads():
    out = io.BytesIO()
    opts = SerializerOptions(
        logical_type=jelly.LOGICAL_STREAM_TYPE_FLAT_QUADS, params=StreamParameters(namespace_declarations=True)
    )
    rdflib_flat_stream_to_file((q for q in rq), out, options=opts)
    return len(list(parse_jelly_flat(io.BytesIO(out.getvalue()))))


attempt("rdflib QUADS generator", rdflib_quads, 1)

if failures:
    print("VIOLATED (C01 round trip impossible / nothing is emitted):")
    for f in failures:
        print(" -", f)
    sys.exit(1)
print("ok")
