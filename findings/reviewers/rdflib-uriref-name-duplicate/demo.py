"""C19: rdflib integration sends the same name-table string twice (URIRef key vs str key)."""
import os, sys; sys.path.insert(0, os.getcwd())
import pyjelly
assert pyjelly.__file__.startswith(os.getcwd()), pyjelly.__file__

from rdflib import Literal, URIRef

from pyjelly import jelly
from pyjelly.integrations.rdflib.serialize import flat_stream_to_frames
from pyjelly.options import LookupPreset
from pyjelly.serialize.streams import SerializerOptions

URN = "urn:isbn:0451450523"  # an IRI without '/' or '#'
triples = [
    (URIRef(URN), URIRef("http://purl.org/dc/terms/title"), Literal("The Last Unicorn")),
    # a resolver URL: its local name (after the last '/') is the same string
    (URIRef("http://resolver.example/" + URN), URIRef("http://www.w3.org/2002/07/owl#sameAs"), URIRef(URN)),
    (URIRef("http://resolver.example/" + URN), URIRef("http://purl.org/dc/terms/title"), Literal("x")),
]
opts = SerializerOptions(
    logical_type=jelly.LOGICAL_STREAM_TYPE_FLAT_TRIPLES,
    lookup_preset=LookupPreset(max_names=4000, max_prefixes=150, max_datatypes=32),  # plenty of room
)
rows = [r for f in flat_stream_to_frames((t for t in triples), options=opts) for r in f.rows]
name_values = [r.name.value for r in rows if r.WhichOneof("row") == "name"]
dups = sorted({v for v in name_values if name_values.count(v) > 1})
print("name entries sent:", name_values)
if dups:
    print(f"C19 VIOLATED: name table entries transmitted more than once although still resident: {dups}")
    sys.exit(1)
print("ok: every name string sent once")
