"""C11: a flat, delimited stream written through GraphStream (physical type GRAPHS,
logical type FLAT_QUADS - GraphStream's own default) from a quad iterator is not
incremental: the rdflib integration consumes the WHOLE iterator before the first
frame, the generic integration consumes a whole graph-run before its first frame."""
import os, sys; sys.path.insert(0, os.getcwd())
import pyjelly
assert pyjelly.__file__.startswith(os.getcwd()), pyjelly.__file__

from rdflib import Literal, URIRef

from pyjelly import jelly
from pyjelly.integrations.generic import serialize as gser
from pyjelly.integrations.generic.generic_sink import IRI, Literal as GLiteral, Quad as GQuad
from pyjelly.integrations.rdflib import serialize as rser
from pyjelly.integrations.rdflib.parse import Quad
from pyjelly.serialize.streams import GraphStream, SerializerOptions

FRAME_SIZE = 4
N = 60          # quads
PER_GRAPH = 20  # consecutive quads of the same graph


def run(name, make_frames, make_quad):
    pulled = 0

    def source():
        nonlocal pulled
        for i in range(N):
            pulled += 1
            yield make_quad(i)

    opts = SerializerOptions(
        frame_size=FRAME_SIZE, logical_type=jelly.LOGICAL_STREAM_TYPE_FLAT_QUADS
    )
    emitted = 0
    worst = 0
    first = None
    for n, frame in enumerate(make_frames(opts, source()), 1):
        kinds = [r.WhichOneof("row") for r in frame.rows]
        if n == 1:
            o = frame.rows[0].options
            assert o.logical_type == jelly.LOGICAL_STREAM_TYPE_FLAT_QUADS
            assert o.physical_type == jelly.PHYSICAL_STREAM_TYPE_GRAPHS
        emitted += kinds.count("triple")
        ahead = pulled - emitted
        if first is None:
            first = (pulled, emitted)
        worst = max(worst, ahead)
    print(
        f"{name}: when the first frame was handed out {first[0]} statements had been "
        f"consumed but only {first[1]} written; max read-ahead {worst} statements"
    )
    # one statement of look-ahead is needed to notice that the graph name changed
    return worst > 1


bad = []
if run(
    "rdflib  GraphStream",
    lambda o, src: rser.stream_frames(GraphStream.for_rdflib(o), src),
    lambda i: Quad(
        URIRef(f"http://e/s{i}"), URIRef("http://e/p"), Literal(i),
        URIRef(f"http://e/g{i // PER_GRAPH}"),
    ),
):
    bad.append("rdflib")
if run(
    "generic GraphStream",
    lambda o, src: gser.stream_frames(
        GraphStream(
            encoder=gser.GenericSinkTermEncoder(lookup_preset=o.lookup_preset), options=o
        ),
        src,
    ),
    lambda i: GQuad(
        IRI(f"http://e/s{i}"), IRI("http://e/p"), GLiteral(str(i)),
        IRI(f"http://e/g{i // PER_GRAPH}"),
    ),
):
    bad.append("generic")

if bad:
    print(
        "C11 VIOLATED (", ", ".join(bad), "): input is consumed far beyond the statement "
        "that completed the last frame; statements are buffered without bound"
    )
    sys.exit(1)
print("ok")
