"""
read() -> None ("no data available right now" on a non-blocking source) is taken for the
end of the stream: the parse finishes normally with a prefix of the statements while the
producer has not even finished writing.

Deterministic: no threads, no timing. Exit status 1 = defect observed.
"""
import io
import os
import sys

WT = "/tmp/h3/wt-H4"
os.chdir(WT)
sys.path.insert(0, os.getcwd())
import pyjelly  # noqa: E402
import pyjelly.parse.ioutils  # noqa: E402

assert pyjelly.__file__.startswith(WT), pyjelly.__file__
assert pyjelly.parse.ioutils.__file__.startswith(WT), pyjelly.parse.ioutils.__file__

from pyjelly import jelly  # noqa: E402
from pyjelly.integrations.generic import parse as gpar  # noqa: E402
from pyjelly.integrations.generic import serialize as gser  # noqa: E402
from pyjelly.integrations.generic.generic_sink import IRI, Literal, Triple  # noqa: E402
from pyjelly.serialize.streams import SerializerOptions  # noqa: E402

N = 60
triples = [
    Triple(IRI(f"http://ex.org/s/{i}"), IRI("http://ex.org/p"), Literal(str(i)))
    for i in range(N)
]
buf = io.BytesIO()
gser.flat_stream_to_file(
    (t for t in triples),
    buf,
    options=SerializerOptions(
        logical_type=jelly.LOGICAL_STREAM_TYPE_FLAT_TRIPLES, frame_size=10
    ),
)
data = buf.getvalue()
assert list(gpar.parse_jelly_flat(io.BytesIO(data))) == triples


def frame_ends(b):
    pos, ends = 0, []
    while pos < len(b):
        size = shift = 0
        while True:
            byte = b[pos]
            pos += 1
            size |= (byte & 0x7F) << shift
            shift += 7
            if not byte & 0x80:
                break
        pos += size
        ends.append(pos)
    return ends


cut = frame_ends(data)[2]  # the producer has written three complete frames so far
defects = 0
for label, buffering in (("raw FileIO (buffering=0)", 0), ("io.BufferedReader", -1)):
    r, w = os.pipe()
    os.set_blocking(r, False)
    os.write(w, data[:cut])  # the write end stays open: this is NOT the end of the stream
    src = os.fdopen(r, "rb", buffering=buffering)
    try:
        got = list(gpar.parse_jelly_flat(src))
    except Exception as e:  # noqa: BLE001
        print(f"{label}: raised {type(e).__name__}: {e}   (fine)")
    else:
        defects += 1
        print(
            f"{label}: NO ERROR, parse finished with {len(got)} of {N} statements "
            f"while the writer still holds {len(data) - cut} unsent bytes  <-- silent loss"
        )
    os.write(w, data[cut:])  # the rest arrives "later"; nobody is reading any more
    os.close(w)
    src.close()

if defects:
    print("\nDEFECT: None from read() was treated as end of input")
    sys.exit(1)
print("\nno defect observed")
