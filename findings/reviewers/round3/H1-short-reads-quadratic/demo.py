"""
C09 domain (read schedules down to one byte at a time) / C17 "terminates promptly":
_SourceReader.read() re-copies everything received so far for every short read, so the time
to read ONE frame is quadratic in (frame size / chunk size). Introduced by commit b4bedae,
which replaced io.BufferedReader (linear) with a Python loop doing `data += chunk`.

Run from the worktree root:  cd /tmp/h3/wt-H1 && /venv/bin/python /tmp/h3/H1/short-reads-quadratic/demo.py
Exits 1 when the defect shows. Takes ~15 s.
"""
import io
import os
import sys
import time

sys.path.insert(0, os.getcwd())
import pyjelly  # noqa: E402
import pyjelly.parse.ioutils  # noqa: E402

root = os.getcwd() + os.sep
assert pyjelly.__file__.startswith(root), pyjelly.__file__
assert pyjelly.parse.ioutils.__file__.startswith(root), pyjelly.parse.ioutils.__file__

from pyjelly import jelly  # noqa: E402
from pyjelly.integrations.generic.generic_sink import IRI, Literal, Triple  # noqa: E402
from pyjelly.integrations.generic.parse import parse_jelly_flat  # noqa: E402
from pyjelly.integrations.generic.serialize import flat_stream_to_file  # noqa: E402
from pyjelly.serialize.streams import SerializerOptions  # noqa: E402


class OneByteSocket(io.RawIOBase):
    """A non-seekable raw source that answers every read with a single byte."""

    def __init__(self, data: bytes) -> None:
        self._b = io.BytesIO(data)

    def readable(self) -> bool:
        return True

    def readinto(self, buf) -> int:  # noqa: ANN001
        d = self._b.read(1)
        buf[: len(d)] = d
        return len(d)


def stream_with_one_frame_of(n_triples: int) -> bytes:
    # an ordinary stream: n short triples in a single frame (frame_size > n)
    out = io.BytesIO()
    opts = SerializerOptions(
        frame_size=10**9, logical_type=jelly.LOGICAL_STREAM_TYPE_FLAT_TRIPLES
    )
    gen = (
        Triple(IRI(f"http://example.org/s/{i}"), IRI("http://example.org/p"), Literal("x" * 40))
        for i in range(n_triples)
    )
    flat_stream_to_file(gen, out, opts)
    return out.getvalue()


def timed(src) -> tuple[float, int]:  # noqa: ANN001
    t0 = time.perf_counter()
    n = sum(1 for _ in parse_jelly_flat(src))
    return time.perf_counter() - t0, n


rows = []
for n_triples in (10000, 20000, 40000):
    data = stream_with_one_frame_of(n_triples)
    t_mem, n0 = timed(io.BytesIO(data))
    t_buf, n1 = timed(io.BufferedReader(OneByteSocket(data)))  # what the code did before b4bedae
    t_raw, n2 = timed(OneByteSocket(data))  # current path for a raw source
    assert n0 == n1 == n2 == n_triples
    rows.append((len(data), t_mem, t_buf, t_raw))
    print(
        f"frame of {len(data):>7} bytes, 1-byte reads: BytesIO {t_mem:5.2f}s | "
        f"BufferedReader over the same raw source {t_buf:5.2f}s | raw source directly {t_raw:6.2f}s"
    )

(size_a, _, buf_a, raw_a), (size_c, _, buf_c, raw_c) = rows[0], rows[-1]
growth_raw = raw_c / raw_a
growth_buf = buf_c / buf_a
print(f"input grew x{size_c / size_a:.1f}: raw-source time grew x{growth_raw:.1f}, "
      f"BufferedReader time grew x{growth_buf:.1f}")
# linear would be ~x4; quadratic ~x16. Also demand a large absolute gap to be robust to noise.
if growth_raw > 7 and raw_c > 4 * buf_c:
    print("DEFECT: reading one frame from a short-reading raw source is quadratic in the frame size")
    sys.exit(1)
print("ok: linear")
