"""
A source that the CALLER closed while a lazy pyjelly parser is still being consumed
makes the parser end cleanly with a fraction of the statements instead of raising.

Exit status 1 = defect observed.
"""
import io
import mmap
import os
import sys
import tempfile

WT = "/tmp/h3/wt-H4"
os.chdir(WT)
sys.path.insert(0, os.getcwd())
import pyjelly  # noqa: E402
import pyjelly.parse.ioutils  # noqa: E402

assert pyjelly.__file__.startswith(WT), pyjelly.__file__
assert pyjelly.parse.ioutils.__file__.startswith(WT), pyjelly.parse.ioutils.__file__

from pyjelly import jelly  # noqa: E402
from pyjelly.integrations.generic import parse as gpar  # noqa: E402
from pyjelly.integrations.generic import serialize as gser  # noqa: E402
from pyjelly.integrations.generic.generic_sink import IRI, Literal, Triple  # noqa: E402
from pyjelly.parse.ioutils import get_options_and_frames  # noqa: E402
from pyjelly.serialize.streams import SerializerOptions  # noqa: E402

N = 200
triples = [
    Triple(IRI(f"http://ex.org/s/{i}"), IRI("http://ex.org/p"), Literal(str(i)))
    for i in range(N)
]
buf = io.BytesIO()
gser.flat_stream_to_file(
    (t for t in triples),
    buf,
    options=SerializerOptions(
        logical_type=jelly.LOGICAL_STREAM_TYPE_FLAT_TRIPLES, frame_size=10
    ),
)
data = buf.getvalue()
assert list(gpar.parse_jelly_flat(io.BytesIO(data))) == triples  # a valid stream

tmpdir = tempfile.mkdtemp(prefix="h4-closed-")
path = os.path.join(tmpdir, "x.jelly")
with open(path, "wb") as f:
    f.write(data)

defects = 0


def report(name, fn):
    global defects
    try:
        got = fn()
    except Exception as e:  # noqa: BLE001
        print(f"{name}: raised {type(e).__name__}: {e}   (fine)")
        return
    if got != N:
        defects += 1
        print(f"{name}: NO ERROR, {got} of {N} statements delivered  <-- silent loss")
    else:
        print(f"{name}: all {N} statements")


def peek_then_leave_with_block():
    with open(path, "rb") as f:
        gen = gpar.parse_jelly_flat(f)
        first = next(gen)  # look at the first statement inside the with block
    assert first == triples[0]
    return 1 + len(list(gen))  # the file is closed by now


def options_inside_frames_outside():
    with open(path, "rb") as f:
        options, frames = get_options_and_frames(f)
    return len(list(gpar.parse_jelly_flat(f, frames=frames, options=options)))


def grouped_peek():
    with open(path, "rb") as f:
        graphs = gpar.parse_jelly_grouped(f)
        n = len(next(graphs))
    return n + sum(len(g) for g in graphs)


def mmap_closed():
    with open(path, "rb") as f, mmap.mmap(f.fileno(), 0, access=mmap.ACCESS_READ) as m:
        gen = gpar.parse_jelly_flat(m)
        next(gen)
    return 1 + len(list(gen))


def buffered_closed():
    raw = open(path, "rb", buffering=0)  # noqa: SIM115
    src = io.BufferedReader(raw, buffer_size=64)
    gen = gpar.parse_jelly_flat(src)
    next(gen)
    src.close()
    return 1 + len(list(gen))


report("parse_jelly_flat, file closed after first statement", peek_then_leave_with_block)
report("get_options_and_frames in with-block, frames consumed after", options_inside_frames_outside)
report("parse_jelly_grouped, file closed after first frame", grouped_peek)
report("parse_jelly_flat over mmap closed early", mmap_closed)
report("parse_jelly_flat over BufferedReader closed early", buffered_closed)

os.remove(path)
os.rmdir(tmpdir)
if defects:
    print(f"\nDEFECT: {defects} scenario(s) ended cleanly with incomplete data")
    sys.exit(1)
print("\nno defect observed")
