"""
C14 (and C15): under the project's own wheel build configuration (mypyc, pyproject
[tool.hatch.build.targets.wheel.hooks.mypyc]) the GENERIC parser cannot read any stream
that contains a namespace declaration: TypeError "str object expected; got ...IRI".

Run with cwd = worktree root:   /venv/bin/python /tmp/h3/H3/mypyc-generic-nsdecl/demo.py
Exit 1 = defect shown, 0 = not shown, 2 = inconclusive (mypyc / C compiler unavailable).
Only pyjelly/parse/decode.py is compiled (about 10 s), in a throw-away copy; the worktree
is not modified.
"""
import io
import os
import shutil
import subprocess
import sys
import tempfile

ROOT = os.getcwd()
sys.path.insert(0, ROOT)
import pyjelly  # noqa: E402
import pyjelly.parse.ioutils  # noqa: E402

assert pyjelly.__file__.startswith(ROOT), pyjelly.__file__
assert pyjelly.parse.ioutils.__file__.startswith(ROOT), pyjelly.parse.ioutils.__file__

from pyjelly import jelly  # noqa: E402
from pyjelly.integrations.generic.generic_sink import (  # noqa: E402
    IRI,
    GenericStatementSink,
    Literal,
    Prefix,
    Triple,
)
from pyjelly.integrations.generic.parse import parse_jelly_flat  # noqa: E402
from pyjelly.integrations.generic.serialize import grouped_stream_to_file  # noqa: E402
from pyjelly.options import StreamParameters  # noqa: E402
from pyjelly.serialize.streams import SerializerOptions  # noqa: E402

# 1. a perfectly ordinary stream: one binding, one triple, declarations enabled
sink = GenericStatementSink()
sink.bind("ex", IRI("http://example.org/"))
sink.add(Triple(IRI("http://example.org/s"), IRI("http://example.org/p"), Literal("o")))
options = SerializerOptions(
    logical_type=jelly.LOGICAL_STREAM_TYPE_FLAT_TRIPLES,
    params=StreamParameters(namespace_declarations=True),
)
out = io.BytesIO()
grouped_stream_to_file((s for s in [sink]), out, options=options)
data = out.getvalue()

interpreted = list(parse_jelly_flat(io.BytesIO(data)))
print("interpreted decode.py :", interpreted)
assert interpreted[0] == Prefix("ex", IRI("http://example.org/")), interpreted

# 2. the same source, decode.py compiled the way the wheels are built
tmp = tempfile.mkdtemp(prefix="h3-mypyc-")
try:
    shutil.copytree(
        os.path.join(ROOT, "pyjelly"),
        os.path.join(tmp, "pyjelly"),
        ignore=shutil.ignore_patterns("__pycache__", "*.so"),
        ignore_dangling_symlinks=True,  # pyjelly/_proto points into an absent submodule
    )
    build = subprocess.run(
        [
            sys.executable,
            "-m",
            "mypyc",
            "--ignore-missing-imports",  # mypy-args of pyproject.toml
            "--no-warn-no-return",
            "pyjelly/parse/decode.py",
        ],
        cwd=tmp,
        capture_output=True,
        text=True,
        check=False,
    )
    if build.returncode != 0:
        print("INCONCLUSIVE: mypyc build failed\n", build.stdout[-2000:], build.stderr[-2000:])
        sys.exit(2)

    child = r"""
import io, os, sys
sys.path.insert(0, os.getcwd())
import pyjelly.parse.decode as decode, pyjelly.parse.ioutils as ioutils
assert decode.__file__.startswith(os.getcwd()) and decode.__file__.endswith(".so"), decode.__file__
assert ioutils.__file__.startswith(os.getcwd()), ioutils.__file__
data = bytes.fromhex(sys.argv[1])
from pyjelly.integrations.rdflib.parse import parse_jelly_flat as rdflib_flat
print("compiled, rdflib API  :", list(rdflib_flat(io.BytesIO(data))))
from pyjelly.integrations.generic.parse import parse_jelly_flat, parse_jelly_to_graph
try:
    print("compiled, generic API :", list(parse_jelly_flat(io.BytesIO(data))))
except TypeError as e:
    print("compiled, generic API : TypeError:", e)
    try:
        parse_jelly_to_graph(io.BytesIO(data))
    except TypeError as e2:
        print("compiled, generic parse_jelly_to_graph : TypeError:", e2)
    sys.exit(1)
"""
    run = subprocess.run(
        [sys.executable, "-c", child, data.hex()],
        cwd=tmp,
        capture_output=True,
        text=True,
        check=False,
    )
    print(run.stdout, end="")
    if run.returncode not in (0, 1):
        print("INCONCLUSIVE: child failed\n", run.stderr[-3000:])
        sys.exit(2)
except SystemExit:
    raise
except BaseException as exc:  # noqa: BLE001 - never report a harness problem as the defect
    print("INCONCLUSIVE: demo harness failed:", type(exc).__name__, exc)
    sys.exit(2)
finally:
    shutil.rmtree(tmp, ignore_errors=True)

if run.returncode == 1:
    print(
        "DEFECT: with pyjelly/parse/decode.py compiled by mypyc (as in every CPython wheel) "
        "the generic API cannot deliver a namespace declaration; the interpreted module and "
        "the rdflib API can."
    )
    sys.exit(1)
print("not reproduced")
sys.exit(0)
