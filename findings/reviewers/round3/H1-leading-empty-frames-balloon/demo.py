"""
C17: a run of zero bytes (= empty delimited frames) at the start of the input makes every
parsing entry point allocate ~900 bytes per input byte before it raises.

Run from the worktree root:  cd /tmp/h3/wt-H1 && /venv/bin/python /tmp/h3/H1/leading-empty-frames-balloon/demo.py
Exits 1 when the defect shows.
"""
import io
import os
import resource
import sys
import time

sys.path.insert(0, os.getcwd())
import pyjelly  # noqa: E402
import pyjelly.parse.ioutils  # noqa: E402

root = os.getcwd() + os.sep
assert pyjelly.__file__.startswith(root), pyjelly.__file__
assert pyjelly.parse.ioutils.__file__.startswith(root), pyjelly.parse.ioutils.__file__

from pyjelly.integrations.generic.parse import parse_jelly_flat  # noqa: E402
from pyjelly.integrations.generic.serialize import flat_stream_to_file  # noqa: E402
from pyjelly.integrations.generic.generic_sink import IRI, Triple  # noqa: E402


def rss_mb() -> float:
    with open("/proc/self/statm") as f:
        return int(f.read().split()[1]) * resource.getpagesize() / 2**20


N = 512 * 1024  # half a megabyte of input
AMPLIFICATION_LIMIT = 100  # bytes of memory per byte of input we are willing to call sane

# --- control: the same empty frames AFTER a first real frame are streamed, not kept -----
out = io.BytesIO()
flat_stream_to_file(
    (t for t in [Triple(IRI("http://e/s"), IRI("http://e/p"), IRI("http://e/o"))]), out
)
control = out.getvalue() + b"\x00" * N
before = rss_mb()
n = sum(1 for _ in parse_jelly_flat(io.BytesIO(control)))
control_growth = rss_mb() - before
print(f"control: 1 real frame + {N} empty frames -> {n} statement(s), RSS grew {control_growth:.0f} MiB")

# --- hostile / corrupt input: only zero bytes (e.g. a zero-filled file) -------------------
hostile = b"\x00" * N
before = rss_mb()
peak_before = resource.getrusage(resource.RUSAGE_SELF).ru_maxrss / 1024
t0 = time.time()
try:
    list(parse_jelly_flat(io.BytesIO(hostile)))
    outcome = "returned"
except Exception as e:  # noqa: BLE001
    outcome = f"raised {type(e).__name__}: {e}"
dt = time.time() - t0
peak_after = resource.getrusage(resource.RUSAGE_SELF).ru_maxrss / 1024
growth = peak_after - max(peak_before, before)
print(f"hostile: {N} zero bytes -> {outcome} after {dt:.1f}s")
print(f"         peak RSS grew by {growth:.0f} MiB = {growth * 2**20 / N:.0f} bytes per input byte")

if growth * 2**20 / N > AMPLIFICATION_LIMIT:
    print(
        "DEFECT: memory grows ~linearly with the number of leading empty frames "
        f"(>{AMPLIFICATION_LIMIT}x the input size); 16 MiB of zeros would need ~15 GiB"
    )
    sys.exit(1)
print("ok: no balloon")
