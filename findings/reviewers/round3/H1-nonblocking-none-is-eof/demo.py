"""
C09 (chunking of the transport is never mistaken for structure of the stream):
read() -> None ("no data available yet" on a non-blocking pipe / stdin / socket file) is taken
for the end of the stream, so parsing ends *successfully* with only part of the data.

Run from the worktree root:  cd /tmp/h3/wt-H1 && /venv/bin/python /tmp/h3/H1/nonblocking-none-is-eof/demo.py
Exits 1 when the defect shows.
"""
import importlib.util
import io
import os
import subprocess
import sys
import tempfile

sys.path.insert(0, os.getcwd())
import pyjelly  # noqa: E402
import pyjelly.parse.ioutils  # noqa: E402

root = os.getcwd() + os.sep
assert pyjelly.__file__.startswith(root), pyjelly.__file__
assert pyjelly.parse.ioutils.__file__.startswith(root), pyjelly.parse.ioutils.__file__

from pyjelly import jelly  # noqa: E402
from pyjelly.integrations.generic import parse as gparse  # noqa: E402
from pyjelly.integrations.generic.generic_sink import IRI, Triple  # noqa: E402
from pyjelly.integrations.generic.serialize import flat_stream_to_frames  # noqa: E402
from pyjelly.serialize.ioutils import write_delimited  # noqa: E402
from pyjelly.serialize.streams import SerializerOptions  # noqa: E402

# a 4-frame stream, 3 triples per frame
statements = [
    Triple(IRI(f"http://e/s{i}"), IRI("http://e/p"), IRI(f"http://e/o{i}")) for i in range(12)
]
options = SerializerOptions(frame_size=3, logical_type=jelly.LOGICAL_STREAM_TYPE_FLAT_TRIPLES)
frames = []
for frame in flat_stream_to_frames((s for s in statements), options):
    buf = io.BytesIO()
    write_delimited(frame, buf)
    frames.append(buf.getvalue())
whole = b"".join(frames)
assert list(gparse.parse_jelly_flat(io.BytesIO(whole))) == statements
first_half = b"".join(frames[: len(frames) // 2])
second_half = b"".join(frames[len(frames) // 2 :])
n_first = sum(
    1 for _ in gparse.parse_jelly_flat(io.BytesIO(first_half))
)  # statements in the frames delivered so far


def run(parse_flat, buffering: int) -> str:
    r, w = os.pipe()
    os.set_blocking(r, False)  # e.g. a stdin left non-blocking by the parent, a non-blocking FIFO
    os.write(w, first_half)  # the producer has sent half of the stream and is still working
    src = os.fdopen(r, "rb", buffering=buffering)
    try:
        got = list(parse_flat(src))
        result = f"returned normally with {len(got)} of {len(statements)} statements"
    except Exception as e:  # noqa: BLE001
        result = f"raised {type(e).__name__}: {e}"
    # the stream had NOT ended: the write end is still open and the rest arrives now
    try:
        os.write(w, second_half)
        os.close(w)
        os.set_blocking(r, True)
        rest = src.read()
        src.close()
    except (OSError, ValueError):
        # the pre-fix reader wrapped the raw file in a BufferedReader that closes it when dropped
        return result
    return result + f"  [write end was still open; {len(rest)} more bytes arrived afterwards]"


bad = False
for buffering, label in ((0, "raw FileIO (buffering=0)"), (-1, "BufferedReader")):
    res = run(gparse.parse_jelly_flat, buffering)
    print(f"current code, {label}: {res}")
    if res.startswith("returned normally") and f"with {len(statements)} of" not in res:
        bad = True

# for comparison: the reader as it was before commit b4bedae (loud failure, nothing silently lost)
try:
    old_src = subprocess.run(
        ["git", "show", "b4bedae^:pyjelly/parse/ioutils.py"],
        capture_output=True, check=True, cwd=os.getcwd(),
    ).stdout
    with tempfile.TemporaryDirectory() as d:
        p = os.path.join(d, "old_ioutils.py")
        with open(p, "wb") as f:
            f.write(old_src)
        spec = importlib.util.spec_from_file_location("old_ioutils", p)
        old = importlib.util.module_from_spec(spec)
        spec.loader.exec_module(old)

        def old_parse_flat(src):
            opts, frs = old.get_options_and_frames(src)
            return gparse.parse_jelly_flat(src, frames=frs, options=opts)

        for buffering, label in ((0, "raw FileIO (buffering=0)"), (-1, "BufferedReader")):
            print(f"before b4bedae, {label}: {run(old_parse_flat, buffering)}")
except Exception as e:  # noqa: BLE001
    print("(could not load the pre-fix reader for comparison:", e, ")")

if bad:
    print(
        f"DEFECT: the parser reported a clean end of stream after {n_first} statements although "
        "the source only said 'no data yet' (read() returned None), not EOF (b'')"
    )
    sys.exit(1)
print("ok")
