"""
C01 (generic round trip): terms built from a str-mixin Enum member are written
with the text "ClassName.MEMBER" instead of the member's string value.

Run from anywhere:  /venv/bin/python demo.py
Exits 1 when the defect shows, 0 otherwise.
"""
import io
import os
import sys
from enum import Enum

WT = "/tmp/h3/wt-H2"
os.chdir(WT)
sys.path.insert(0, os.getcwd())

import pyjelly  # noqa: E402
import pyjelly.parse.ioutils  # noqa: E402

assert pyjelly.__file__.startswith(WT), pyjelly.__file__
assert pyjelly.parse.ioutils.__file__.startswith(WT), pyjelly.parse.ioutils.__file__

from pyjelly.integrations.generic.generic_sink import (  # noqa: E402
    IRI,
    BlankNode,
    Literal,
    Triple,
)
from pyjelly.integrations.generic.parse import parse_jelly_flat  # noqa: E402
from pyjelly.integrations.generic.serialize import flat_stream_to_frames  # noqa: E402
from pyjelly.serialize.ioutils import write_delimited  # noqa: E402


class FOAF(str, Enum):
    """A vocabulary the way many code bases spell one: str-valued Enum members."""

    knows = "http://xmlns.com/foaf/0.1/knows"
    Person = "http://xmlns.com/foaf/0.1/Person"


class XSD(str, Enum):
    integer = "http://www.w3.org/2001/XMLSchema#integer"


class Ids(str, Enum):
    b0 = "b0"


# every member IS a str with the expected content
assert isinstance(FOAF.knows, str)
assert FOAF.knows == "http://xmlns.com/foaf/0.1/knows"
assert FOAF.knows.startswith("http://")

written = [
    Triple(BlankNode(Ids.b0), IRI(FOAF.knows), IRI(FOAF.Person)),
    Triple(BlankNode(Ids.b0), IRI(FOAF.knows), Literal("42", datatype=XSD.integer)),
]
expected = [
    Triple(
        BlankNode("b0"),
        IRI("http://xmlns.com/foaf/0.1/knows"),
        IRI("http://xmlns.com/foaf/0.1/Person"),
    ),
    Triple(
        BlankNode("b0"),
        IRI("http://xmlns.com/foaf/0.1/knows"),
        Literal("42", datatype="http://www.w3.org/2001/XMLSchema#integer"),
    ),
]

buf = io.BytesIO()
for frame in flat_stream_to_frames(iter(written)):  # no exception, no warning
    write_delimited(frame, buf)
parsed = list(parse_jelly_flat(io.BytesIO(buf.getvalue())))

print("expected after round trip:")
for t in expected:
    print("   ", t)
print("parsed back from the written bytes:")
for t in parsed:
    print("   ", t)

if parsed != expected:
    print(
        "\nDEFECT: the file silently holds other IRIs / blank node labels / "
        "datatypes than the terms that were written "
        "(str(member) == 'Class.MEMBER' was stored instead of the string value)."
    )
    sys.exit(1)
print("\nok: round trip lossless")
sys.exit(0)
