"""
C15 / C07 (operation sequence): a source that is closed while a lazy parse is still in
progress makes the parse END NORMALLY with a strict prefix of the statements instead of
raising. Before commit b4bedae the same sequence raised ValueError for every seekable source.

Run with cwd = worktree root:  /venv/bin/python /tmp/h3/H3/closed-source-silent-truncation/demo.py
Exit 1 = defect shown.
"""
import io
import os
import sys
import tempfile

ROOT = os.getcwd()
sys.path.insert(0, ROOT)
import pyjelly  # noqa: E402
import pyjelly.parse.ioutils  # noqa: E402

assert pyjelly.__file__.startswith(ROOT), pyjelly.__file__
assert pyjelly.parse.ioutils.__file__.startswith(ROOT), pyjelly.parse.ioutils.__file__

from pyjelly import jelly  # noqa: E402
from pyjelly.integrations.generic import parse as gparse  # noqa: E402
from pyjelly.integrations.generic.generic_sink import IRI, Literal, Triple  # noqa: E402
from pyjelly.integrations.generic.serialize import flat_stream_to_file  # noqa: E402
from pyjelly.integrations.rdflib import parse as rparse  # noqa: E402
from pyjelly.serialize.streams import SerializerOptions  # noqa: E402

N = 50
triples = [
    Triple(IRI(f"http://example.org/s{i}"), IRI("http://example.org/p"), Literal(str(i)))
    for i in range(N)
]
path = os.path.join(tempfile.mkdtemp(prefix="h3-closed-"), "data.jelly")
with open(path, "wb") as f:
    flat_stream_to_file(
        iter(triples),
        f,
        SerializerOptions(frame_size=5, logical_type=jelly.LOGICAL_STREAM_TYPE_FLAT_TRIPLES),
    )

shown = False


def report(label, fn):
    global shown
    try:
        got = fn()
    except ValueError as exc:
        print(f"{label}: raised ValueError({exc}) - fine")
        return
    if got < N:
        shown = True
        print(f"{label}: NO ERROR, delivered {got} of {N} statements")
    else:
        print(f"{label}: delivered all {got}")


def lazy_flat_generic():
    # the classic slip: the generator outlives the with-block that owns the file
    with open(path, "rb") as f:
        statements = gparse.parse_jelly_flat(f)
        first = next(statements)  # e.g. peek at the first statement inside the block
    return 1 + sum(1 for _ in statements)


def lazy_flat_rdflib():
    with open(path, "rb") as f:
        statements = rparse.parse_jelly_flat(f)
        next(statements)
    return 1 + sum(1 for _ in statements)


def lazy_grouped_generic():
    with open(path, "rb") as f:
        sinks = gparse.parse_jelly_grouped(f)
        total = len(next(sinks))
    return total + sum(len(s) for s in sinks)


def bytesio_closed():
    buf = io.BytesIO(open(path, "rb").read())
    statements = gparse.parse_jelly_flat(buf)
    next(statements)
    buf.close()
    return 1 + sum(1 for _ in statements)


report("generic parse_jelly_flat, file closed by with-block", lazy_flat_generic)
report("rdflib  parse_jelly_flat, file closed by with-block", lazy_flat_rdflib)
report("generic parse_jelly_grouped, file closed by with-block", lazy_grouped_generic)
report("generic parse_jelly_flat, BytesIO closed mid-way", bytesio_closed)

if shown:
    print(
        "DEFECT: the parse of a source closed mid-way ends like a complete parse; the caller "
        "cannot tell 1 statement from 50 (pyjelly/parse/ioutils.py:_SourceReader._read_some "
        "turns ValueError-on-closed into end of input for every source since b4bedae)."
    )
    sys.exit(1)
sys.exit(0)
