"""
In the form pyjelly is shipped in (wheels are built with mypyc, see
[tool.hatch.build.targets.wheel.hooks.mypyc] in pyproject.toml) a statement of the wrong
arity does not raise: the serializer stops silently and writes an empty or partial file.

The demo first runs the worktree sources as they are (interpreted): RuntimeError. Then it
compiles a private COPY of the worktree's pyjelly/integrations/generic/serialize.py with
mypyc (the worktree itself is not touched; about 12 s) and runs the same calls in a
subprocess against that copy: no error, statements lost.

Exit status 1 = defect observed.
"""
import os
import shutil
import subprocess
import sys
import tempfile

WT = "/tmp/h3/wt-H4"
PY = sys.executable

PROBE = r'''
import io, os, sys
root = sys.argv[1]
sys.path.insert(0, root)
import pyjelly, pyjelly.parse.ioutils
import pyjelly.integrations.generic.serialize as gser
assert pyjelly.__file__.startswith(root), pyjelly.__file__
assert pyjelly.parse.ioutils.__file__.startswith(root)
assert gser.__file__.startswith(root), gser.__file__
print("   serializer module:", os.path.basename(gser.__file__))
from pyjelly import jelly
from pyjelly.integrations.generic import parse as gpar
from pyjelly.integrations.generic.generic_sink import IRI, Literal, Quad, Triple, GenericStatementSink
from pyjelly.serialize.streams import SerializerOptions

def quad(i):
    return Quad(IRI(f"http://ex.org/s/{i}"), IRI("http://ex.org/p"), Literal(str(i)), IRI("http://ex.org/g"))

silent = 0
def attempt(name, n_in, fn):
    global silent
    out = io.BytesIO()
    try:
        fn(out)
    except BaseException as e:
        print(f"   {name}: raised {type(e).__name__}: {e}")
        return
    data = out.getvalue()
    try:
        back = len(list(gpar.parse_jelly_flat(io.BytesIO(data))))
    except Exception as e:
        back = f"unparseable ({type(e).__name__}: {e})"
    print(f"   {name}: NO ERROR; {len(data)} bytes written; {back} of {n_in} statements read back")
    silent += 1

# 1. ten quads, the 4th one handed over as a triple (s, p, o) by mistake, default options
stmts = [quad(i) for i in range(10)]
stmts[3] = Triple(*stmts[3][:3])
attempt("flat_stream_to_file, default options ", 10,
        lambda out: gser.flat_stream_to_file((s for s in stmts), out))
# 2. the same with small frames: a partial file
opts = SerializerOptions(logical_type=jelly.LOGICAL_STREAM_TYPE_FLAT_QUADS, frame_size=3)
attempt("flat_stream_to_file, frame_size=3    ", 10,
        lambda out: gser.flat_stream_to_file((s for s in stmts), out, options=opts))
# 3. sink.serialize() of a sink that holds such a statement
sink = GenericStatementSink()
for s in stmts:
    sink.add(s)
attempt("GenericStatementSink.serialize       ", 10, lambda out: sink.serialize(out))
sys.exit(10 + silent)
'''

print("1) worktree sources, interpreted:")
r1 = subprocess.run([PY, "-c", PROBE, WT], cwd=WT, check=False)
interpreted_silent = r1.returncode - 10

tmp = tempfile.mkdtemp(prefix="h4-mypyc-")
try:
    shutil.copytree(
        os.path.join(WT, "pyjelly"),
        os.path.join(tmp, "pyjelly"),
        ignore=shutil.ignore_patterns("__pycache__", "*.so"),
        symlinks=True,
    )
    print("2) compiling a private copy of pyjelly/integrations/generic/serialize.py with mypyc ...")
    env = dict(os.environ, MYPYC_OPT_LEVEL="0")
    b = subprocess.run(
        [PY, "-m", "mypyc", "--ignore-missing-imports", "--no-warn-no-return",
         "pyjelly/integrations/generic/serialize.py"],
        cwd=tmp, env=env, capture_output=True, text=True, check=False,
    )
    if b.returncode != 0:
        print(b.stdout[-2000:], b.stderr[-2000:])
        print("could not compile; nothing demonstrated")
        sys.exit(2)
    print("3) the same sources, compiled:")
    r2 = subprocess.run([PY, "-c", PROBE, tmp], cwd=tmp, check=False)
    compiled_silent = r2.returncode - 10
finally:
    shutil.rmtree(tmp, ignore_errors=True)

print()
print(f"interpreted: {interpreted_silent} silent outcome(s); compiled: {compiled_silent} silent outcome(s)")
if compiled_silent > 0:
    print("DEFECT: the compiled serializer dropped statements without raising")
    sys.exit(1)
print("no defect observed")
