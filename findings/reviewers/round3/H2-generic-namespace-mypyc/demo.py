"""
Generic integration, compiled (mypyc) build - the configuration pyjelly ships as wheels:
a stream that holds a namespace declaration cannot be parsed back at all.

    TypeError: str object expected; got pyjelly.integrations.generic.generic_sink.IRI

The demo
  1. copies the worktree's pyjelly/ into a scratch directory under /tmp/h3/H2,
  2. compiles pyjelly/parse/decode.py there with mypyc, using the arguments of
     pyproject.toml's [tool.hatch.build.targets.wheel.hooks.mypyc] (decode.py is on its
     include list),
  3. runs the same write+parse round trip (generic API, namespace_declarations=True) once
     against the pure-Python worktree and once against the copy with the compiled decoder.

Exit 1: pure Python round-trips, the compiled decoder raises (the defect).
Exit 0: both round-trip.  Exit 2: could not build / unexpected.
If mypyc or a C compiler is missing, the call-site cast mypyc inserts is emulated from the
annotations instead (clearly labelled).
"""
import os
import shutil
import subprocess
import sys
import tempfile
import textwrap

WT = "/tmp/h3/wt-H2"
HERE = os.path.dirname(os.path.abspath(__file__))
PY = sys.executable

CHILD = textwrap.dedent(
    """
    import io, os, sys
    root = sys.argv[1]
    os.chdir(root)
    sys.path.insert(0, os.getcwd())
    import pyjelly, pyjelly.parse.ioutils, pyjelly.parse.decode
    assert pyjelly.__file__.startswith(root), pyjelly.__file__
    assert pyjelly.parse.ioutils.__file__.startswith(root), pyjelly.parse.ioutils.__file__
    assert pyjelly.parse.decode.__file__.startswith(root), pyjelly.parse.decode.__file__
    print("   decoder module:", pyjelly.parse.decode.__file__)
    from pyjelly import jelly
    from pyjelly.integrations.generic.generic_sink import (
        IRI, GenericStatementSink, Literal, Prefix, Triple,
    )
    from pyjelly.integrations.generic.serialize import grouped_stream_to_file
    from pyjelly.options import StreamParameters
    from pyjelly.serialize.streams import SerializerOptions

    sink = GenericStatementSink()
    sink.bind("ex", IRI("http://example.org/"))
    sink.add(Triple(IRI("http://example.org/s"), IRI("http://example.org/p"), Literal("o")))
    options = SerializerOptions(
        logical_type=jelly.LOGICAL_STREAM_TYPE_FLAT_TRIPLES,
        params=StreamParameters(namespace_declarations=True),
    )
    out = io.BytesIO()
    grouped_stream_to_file((s for s in [sink]), out, options=options)

    back = GenericStatementSink()
    try:
        back.parse(io.BytesIO(out.getvalue()))
    except Exception as e:
        print("   parse raised %s: %s" % (type(e).__name__, e))
        sys.exit(1)
    ok = list(back) == list(sink) and dict(back.namespaces) == dict(sink.namespaces)
    print("   parsed back:", list(back), dict(back.namespaces))
    sys.exit(0 if ok else 3)
    """
)


def run_child(root: str) -> int:
    env = dict(os.environ)
    env.pop("PYTHONPATH", None)
    return subprocess.run([PY, "-c", CHILD, root], env=env, check=False).returncode


def emulate() -> int:
    """No compiler: check the cast mypyc would insert at the call site."""
    os.chdir(WT)
    sys.path.insert(0, os.getcwd())
    import typing

    import pyjelly
    from pyjelly.parse import decode

    assert pyjelly.__file__.startswith(WT)
    declared = typing.get_type_hints(decode.Adapter.namespace_declaration)["iri"]
    from pyjelly.integrations.generic.generic_sink import IRI
    from pyjelly.integrations.generic.parse import GenericTriplesAdapter

    passed = type(GenericTriplesAdapter.iri(None, "http://example.org/"))  # type: ignore[arg-type]
    print(f"EMULATED: Adapter.namespace_declaration declares iri: {declared}, "
          f"Decoder.decode_namespace_declaration passes adapter.iri(...) = {passed}")
    return 1 if declared is str and not issubclass(passed, str) and passed is IRI else 0


def main() -> int:
    print("1) pure-Python worktree")
    pure = run_child(WT)
    if pure != 0:
        print("unexpected: the pure-Python round trip failed already")
        return 2

    scratch = tempfile.mkdtemp(prefix="build-", dir=HERE)
    try:
        shutil.copytree(
            os.path.join(WT, "pyjelly"),
            os.path.join(scratch, "pyjelly"),
            ignore=shutil.ignore_patterns("__pycache__"),
            ignore_dangling_symlinks=True,
        )
        print("2) compiling pyjelly/parse/decode.py with mypyc (as the wheel build does)")
        build = subprocess.run(
            [PY, "-m", "mypyc", "--ignore-missing-imports", "--no-warn-no-return",
             "pyjelly/parse/decode.py"],
            cwd=scratch, capture_output=True, text=True, check=False,
        )
        compiled = [
            f for f in os.listdir(os.path.join(scratch, "pyjelly", "parse"))
            if f.startswith("decode.") and f.endswith((".so", ".pyd"))
        ]
        if build.returncode != 0 or not compiled:
            print("   mypyc build not possible here:", build.stderr.strip()[-300:])
            return emulate()
        print("3) same round trip, decoder compiled")
        rc = run_child(scratch)
    finally:
        shutil.rmtree(scratch, ignore_errors=True)

    if rc == 1:
        print(
            "\nDEFECT: with the decoder compiled (pyjelly's wheel configuration) the generic "
            "parser cannot read back a stream that holds a namespace declaration; the "
            "statements written through the generic API are unreadable."
        )
        return 1
    if rc == 0:
        print("\nok: both builds round-trip")
        return 0
    return 2


if __name__ == "__main__":
    try:
        code = main()
    except Exception as exc:  # never report a harness problem as the defect
        print("harness problem:", type(exc).__name__, exc)
        code = 2
    sys.exit(code)
