"""
C09 - parsing must not depend on the kind of (non-seekable) byte source.

A delimited Jelly stream is parsed once from io.BytesIO and once from a
non-seekable *raw* source that marks itself closed as soon as it has handed out
its last byte.  This is exactly how the HTTP response object of urllib3 behaves
(``requests.get(url, stream=True).raw``; urllib3's ``auto_close``): the bytes
delivered are identical, only the transport "hangs up" after the last one.

Expected: both parses return the same statements and end normally.
Current tree: every statement is yielded and then the generator raises
``ValueError: read of closed file`` instead of ending (Graph.parse() fails the
same way), because pyjelly wraps the raw source in io.BufferedReader, and
BufferedReader refuses the final "is there another frame?" read once the raw
object reports closed.

Run:  cd /tmp/wt/H6 && /venv/bin/python /tmp/hunt/H6/selfclosing-http-response/demo.py
"""
import os, sys; sys.path.insert(0, os.getcwd())
import io
import threading

import pyjelly
assert pyjelly.__file__.startswith(os.getcwd()), pyjelly.__file__

import rdflib
from rdflib import Graph, Literal, URIRef

from pyjelly.integrations.rdflib.parse import parse_jelly_flat


def make_stream() -> bytes:
    g = Graph()
    for i in range(5):
        g.add((URIRef(f"http://example.org/s{i}"), URIRef("http://example.org/p"), Literal(i)))
    out = io.BytesIO()
    g.serialize(out, format="jelly")  # default options: delimited, flat triples
    return out.getvalue()


class SelfClosingResponse(io.RawIOBase):
    """
    Non-seekable raw byte source with short reads that closes itself at EOF.

    close_when="last-byte": closed as soon as the last byte has been handed out
        (urllib3 / http.client with Content-Length: connection released when
        length_remaining hits 0).
    close_when="eof-seen": closed when a read finds nothing more (chunked /
        connection-close bodies).
    """

    def __init__(self, data: bytes, chunk: int, close_when: str) -> None:
        super().__init__()
        self._data, self._pos, self._chunk, self._when = data, 0, chunk, close_when

    def readable(self) -> bool:
        return True

    def seekable(self) -> bool:
        return False

    def readinto(self, b) -> int:
        n = min(self._chunk, len(b), len(self._data) - self._pos)
        b[:n] = self._data[self._pos : self._pos + n]
        self._pos += n
        at_end = self._pos >= len(self._data)
        if (self._when == "last-byte" and at_end) or (self._when == "eof-seen" and n == 0):
            self.close()
        return n


def run(source):
    got = []
    try:
        for st in parse_jelly_flat(source):
            got.append(st)
    except Exception as e:  # noqa: BLE001
        return got, e
    return got, None


def real_urllib3_check(data: bytes):
    """Optional corroboration with the real library (skipped if not installed)."""
    try:
        import urllib3
    except ImportError:
        return None
    import http.server

    class H(http.server.BaseHTTPRequestHandler):
        protocol_version = "HTTP/1.1"

        def log_message(self, *a):
            pass

        def do_GET(self):
            self.send_response(200)
            self.send_header("Content-Length", str(len(data)))
            self.end_headers()
            self.wfile.write(data)

    srv = http.server.ThreadingHTTPServer(("127.0.0.1", 0), H)
    threading.Thread(target=srv.serve_forever, daemon=True).start()
    try:
        resp = urllib3.PoolManager().request(
            "GET", f"http://127.0.0.1:{srv.server_address[1]}/", preload_content=False
        )
        return run(resp)
    finally:
        srv.shutdown()


def main() -> int:
    data = make_stream()
    expected, err = run(io.BytesIO(data))
    assert err is None and len(expected) == 5

    failures = []
    for when in ("last-byte", "eof-seen"):
        for chunk in (1, 7, 1 << 20):
            got, err = run(SelfClosingResponse(data, chunk, when))
            if err is not None or got != expected:
                failures.append(
                    f"  self-closing source (close {when}, reads of <= {chunk} bytes): "
                    f"{len(got)}/{len(expected)} statements, then {err!r}"
                )
            # the rdflib plugin entry point fails the same way
            try:
                Graph().parse(source=SelfClosingResponse(data, chunk, when), format="jelly")
            except Exception as e:  # noqa: BLE001
                failures.append(f"  Graph.parse (close {when}, chunk {chunk}): raised {e!r}")

    real = real_urllib3_check(data)
    if real is not None:
        got, err = real
        if err is not None or got != expected:
            failures.append(
                f"  real urllib3.HTTPResponse over localhost: {len(got)}/{len(expected)} "
                f"statements, then {err!r}"
            )

    if failures:
        print("C09 VIOLATED: same bytes, different outcome depending on the byte source.")
        print("io.BytesIO: 5 statements, generator ends normally.")
        print("non-seekable raw source that closes itself after its last byte:")
        print("\n".join(failures))
        return 1
    print("OK: self-closing non-seekable source parsed identically to BytesIO")
    return 0


if __name__ == "__main__":
    sys.exit(main())
