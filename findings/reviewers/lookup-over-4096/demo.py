"""C02: a lookup preset the serializer accepts produces a stream pyjelly itself refuses to read."""
import os, sys; sys.path.insert(0, os.getcwd())

import pyjelly
assert pyjelly.__file__.startswith(os.getcwd()), pyjelly.__file__

from rdflib import Dataset, Graph, Literal, URIRef

from pyjelly import jelly
from pyjelly.options import LookupPreset
from pyjelly.serialize.streams import SerializerOptions

problems = []
t = (URIRef("http://example.org/s"), URIRef("http://example.org/p"), Literal("o"))

for preset in (
    LookupPreset(max_names=4097),
    LookupPreset(max_names=4000, max_prefixes=5000),
    LookupPreset(max_names=4000, max_prefixes=150, max_datatypes=4097),
):
    g = Graph()
    g.add(t)
    options = SerializerOptions(
        logical_type=jelly.LOGICAL_STREAM_TYPE_FLAT_TRIPLES, lookup_preset=preset
    )
    data = g.serialize(format="jelly", encoding="jelly", options=options)  # succeeds
    try:
        back = Graph().parse(data=data, format="jelly")
    except Exception as e:  # noqa: BLE001
        problems.append(f"{preset}: serialized fine ({len(data)} bytes) but parsing raised {type(e).__name__}: {e}")
        continue
    if set(back) != set(g):
        problems.append(f"{preset}: different triples read back")

# same for a Dataset / QUADS
ds = Dataset()
ds.add(t + (URIRef("http://example.org/g"),))
data = ds.serialize(
    format="jelly",
    encoding="jelly",
    options=SerializerOptions(
        logical_type=jelly.LOGICAL_STREAM_TYPE_FLAT_QUADS,
        lookup_preset=LookupPreset(max_names=10_000),
    ),
)
try:
    Dataset().parse(data=data, format="jelly")
except Exception as e:  # noqa: BLE001
    problems.append(f"Dataset/QUADS with max_names=10000: parse raised {type(e).__name__}: {e}")

if problems:
    print("VIOLATION (C02): round trip impossible for lookup presets the serializer accepts")
    for p in problems:
        print("-", p)
    sys.exit(1)
print("ok")
