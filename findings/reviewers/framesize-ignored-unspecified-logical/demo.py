"""C11: SerializerOptions(frame_size=N) is silently ignored (250 is used) unless a
FLAT logical type is also spelled out, so far more than frame_size rows are pending
while the serializer keeps pulling statements from its input."""
import os, sys; sys.path.insert(0, os.getcwd())
import pyjelly
assert pyjelly.__file__.startswith(os.getcwd()), pyjelly.__file__

from rdflib import Literal, URIRef

from pyjelly import jelly
from pyjelly.integrations.generic import serialize as gser
from pyjelly.integrations.generic.generic_sink import IRI, Literal as GLiteral, Triple as GTriple
from pyjelly.integrations.rdflib import serialize as rser
from pyjelly.integrations.rdflib.parse import Triple

FRAME_SIZE = 5
N = 100


def run(name, to_frames, make_statement):
    """Return the list of violations of C11 (write part) observed from outside."""
    pulled = 0

    def source():
        nonlocal pulled
        for i in range(N):
            pulled += 1
            yield make_statement(i)

    opts = rser.SerializerOptions(frame_size=FRAME_SIZE)  # everything else default
    violations = []
    emitted_statements = 0
    frames = 0
    logical = None
    for frame in to_frames(source(), opts):
        frames += 1
        kinds = [r.WhichOneof("row") for r in frame.rows]
        if kinds[0] == "options":
            logical = frame.rows[0].options.logical_type
        emitted_statements += kinds.count("triple")
        last = pulled == N and emitted_statements == N
        # rows that were pending when the statement completing this frame was asked for:
        # everything before the entry rows of the last statement
        idx = len(kinds) - 1
        while idx > 0 and kinds[idx - 1] in ("name", "prefix", "datatype"):
            idx -= 1
        pending_before_last_statement = idx
        if pending_before_last_statement >= FRAME_SIZE:
            violations.append(
                f"{name}: frame #{frames} has {len(kinds)} rows; "
                f"{pending_before_last_statement} rows (>= frame_size={FRAME_SIZE}) were "
                "already pending when the next statement was requested"
            )
        if not last and pulled != emitted_statements:
            violations.append(
                f"{name}: at frame #{frames} {pulled} statements consumed but only "
                f"{emitted_statements} handed out"
            )
    print(
        f"{name}: logical type written = {jelly.LogicalStreamType.Name(logical)}, "
        f"{frames} frame(s) for {N} statements with frame_size={FRAME_SIZE}"
    )
    return violations


problems = []
problems += run(
    "rdflib flat_stream_to_frames",
    rser.flat_stream_to_frames,
    lambda i: Triple(URIRef(f"http://e/s{i}"), URIRef("http://e/p"), Literal(i)),
)
problems += run(
    "generic flat_stream_to_frames",
    gser.flat_stream_to_frames,
    lambda i: GTriple(IRI(f"http://e/s{i}"), IRI("http://e/p"), GLiteral(str(i))),
)

if problems:
    print("C11 VIOLATED: frame_size option ignored for a flat delimited stream")
    for p in problems[:6]:
        print("  -", p)
    sys.exit(1)
print("ok: at most frame_size rows pending, frames handed out incrementally")
