"""C11 (parse, borderline): a delimited stream whose first frame is a 10 byte long
frame without rows (metadata only, as another implementation may send as a
header/keep-alive) is classified as NON-delimited; the parser then calls read()
for the whole rest of the source instead of yielding the statements of the frames
that have already arrived."""
import os, sys; sys.path.insert(0, os.getcwd())
import pyjelly
assert pyjelly.__file__.startswith(os.getcwd()), pyjelly.__file__

import io

from rdflib import Literal, URIRef

from pyjelly import jelly
from pyjelly.integrations.generic.parse import parse_jelly_flat as generic_parse_flat
from pyjelly.integrations.rdflib.parse import Triple, parse_jelly_flat
from pyjelly.integrations.rdflib.serialize import flat_stream_to_frames
from pyjelly.serialize.ioutils import write_delimited
from pyjelly.serialize.streams import SerializerOptions


class Stalled(Exception):
    """The parser asked for bytes that have not arrived (source stalls forever)."""


class StallingSource(io.RawIOBase):
    """Non-seekable source: hands out what has arrived, then stalls (never EOF)."""

    def __init__(self, arrived: bytes) -> None:
        self.arrived, self.pos = arrived, 0

    def readable(self) -> bool:
        return True

    def seekable(self) -> bool:
        return False

    def readinto(self, b) -> int:
        if self.pos >= len(self.arrived):
            raise Stalled
        n = min(len(b), len(self.arrived) - self.pos)
        b[:n] = self.arrived[self.pos : self.pos + n]
        self.pos += n
        return n


def statements():
    for i in range(6):
        yield Triple(URIRef(f"http://e/s{i}"), URIRef("http://e/p"), Literal(i))


opts = SerializerOptions(frame_size=4, logical_type=jelly.LOGICAL_STREAM_TYPE_FLAT_TRIPLES)
data_frames = list(flat_stream_to_frames(statements(), opts))


def stream_bytes(meta_value: bytes) -> tuple[list[bytes], list[int]]:
    head = jelly.RdfStreamFrame()
    head.metadata["k"] = meta_value
    chunks, counts = [], []
    for f in [head, *data_frames]:
        b = io.BytesIO()
        write_delimited(f, b)
        chunks.append(b.getvalue())
        counts.append(sum(r.WhichOneof("row") == "triple" for r in f.rows))
    return chunks, counts


failures = []
for meta_value in (b"ab", b"abc", b"abcd"):  # header frame of 9, 10 and 11 bytes
    chunks, counts = stream_bytes(meta_value)
    for parser_name, parser in (("rdflib", parse_jelly_flat), ("generic", generic_parse_flat)):
        for j in range(2, len(chunks) + 1):
            arrived = b"".join(chunks[:j])
            expected = sum(counts[:j])
            got = 0
            outcome = "stalled"
            try:
                for _ in parser(StallingSource(arrived)):
                    got += 1
                outcome = "ended"
            except Stalled:
                pass
            if got != expected:
                failures.append(
                    f"{parser_name}: header frame of {len(chunks[0]) - 1} bytes, frames 1..{j} "
                    f"arrived ({expected} statements) -> {got} yielded before the parser "
                    f"blocked on the source"
                )

# and with a proper EOF the same stream cannot be read at all
chunks, _ = stream_bytes(b"abc")
try:
    n = len(list(parse_jelly_flat(io.BytesIO(b"".join(chunks)))))
    eof_note = f"with EOF: {n} statements"
except Exception as e:  # noqa: BLE001
    eof_note = f"with EOF the stream is rejected: {type(e).__name__}: {e}"

if failures:
    print("C11 VIOLATED (parse liveness):")
    for f in failures[:4]:
        print("  -", f)
    print(f"  ... {len(failures)} failing schedules in total; {eof_note}")
    sys.exit(1)
print("ok: every arrived frame was delivered before the parser waited for more bytes")
