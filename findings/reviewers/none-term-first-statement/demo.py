"""C20: a None term in the first statement is not rejected and corrupts the stream."""
import os, sys; sys.path.insert(0, os.getcwd())
import io
import pyjelly
assert pyjelly.__file__.startswith(os.getcwd()), pyjelly.__file__

from rdflib import URIRef, Literal
from pyjelly.serialize.streams import TripleStream, QuadStream, GraphStream, SerializerOptions
from pyjelly.serialize.ioutils import write_delimited
from pyjelly.integrations.rdflib.parse import parse_jelly_flat

S, P, O, G = URIRef("http://e/s"), URIRef("http://e/p"), Literal("o"), URIRef("http://e/g")
GOOD = (URIRef("http://e/s2"), URIRef("http://e/p2"), Literal("o2"))


def attempt(kind, slot):
    """Write [statement with None in `slot`, one good statement]; return a verdict."""
    cls = {"T": TripleStream, "Q": QuadStream, "G": GraphStream}[kind]
    stream = cls.for_rdflib(SerializerOptions())
    stream.enroll()
    frames, accepted = [], []

    def push(terms, g=None):
        try:
            if kind == "T":
                f = stream.triple(terms)
                frames.extend([f] if f else [])
            elif kind == "Q":
                f = stream.quad(terms)
                frames.extend([f] if f else [])
            else:
                frames.extend(stream.graph(g, [terms]))
        except BaseException as e:  # rejected: fine
            return f"rejected ({type(e).__name__})"
        accepted.append(tuple(terms) + ((g,) if kind == "G" else ()))
        return "accepted"

    bad = [S, P, O] + ([G] if kind == "Q" else [])
    bad[slot] = None
    first = push(tuple(bad), G)
    good = GOOD + ((G,) if kind == "Q" else ())
    second = push(good, G)
    tail = stream.flow.to_stream_frame()
    if tail:
        frames.append(tail)
    buf = io.BytesIO()
    for f in frames:
        write_delimited(f, buf)
    buf.seek(0)
    try:
        decoded = [tuple(x) for x in parse_jelly_flat(buf)]
    except BaseException as e:
        return first, second, f"UNDECODABLE: {type(e).__name__}: {e}"
    if decoded != accepted:
        return first, second, f"DECODES DIFFERENTLY: {decoded} != {accepted}"
    return first, second, "ok"


violations = 0
for kind, slots in (("T", (0, 1, 2)), ("Q", (0, 1, 2, 3)), ("G", (0, 1, 2))):
    for slot in slots:
        first, second, verdict = attempt(kind, slot)
        name = "spog"[slot]
        print(f"{kind}-stream, None in slot {name} of statement 0: "
              f"stmt0 {first}, stmt1 {second} -> {verdict}")
        if verdict != "ok":
            violations += 1

if violations:
    print(f"\nVIOLATION (C20): in {violations} configurations a statement with an unsupported "
          "term (None) at position 0 was neither rejected nor encoded; the stream kept "
          "accepting statements and the bytes written cannot be decoded.")
    sys.exit(1)
print("no violation")
