"""
GraphStream: a graph that is not written to its end stays open, the stream keeps
accepting data, and the next graph is written INSIDE the open one.

Exits 1 when the defect shows, 0 otherwise.
Run:  /venv/bin/python demo.py
"""

import io
import sys

WT = "/tmp/h4/wt-K2"
sys.path.insert(0, WT)

import pyjelly  # noqa: E402
import pyjelly.parse.ioutils  # noqa: E402

assert pyjelly.__file__.startswith(WT), pyjelly.__file__
assert pyjelly.parse.ioutils.__file__.startswith(WT), pyjelly.parse.ioutils.__file__

from pyjelly import jelly  # noqa: E402
from pyjelly.integrations.generic.generic_sink import (  # noqa: E402
    IRI,
    Literal,
    Quad,
    Triple,
)
from pyjelly.integrations.generic.parse import parse_jelly_flat  # noqa: E402
from pyjelly.integrations.generic.serialize import (  # noqa: E402
    GenericSinkTermEncoder,
    stream_frames,
)
from pyjelly.options import StreamParameters  # noqa: E402
from pyjelly.serialize.ioutils import write_delimited  # noqa: E402
from pyjelly.serialize.streams import GraphStream, SerializerOptions  # noqa: E402


def read_varint(buf, pos):
    shift = val = 0
    while True:
        b = buf[pos]
        pos += 1
        val |= (b & 0x7F) << shift
        if not b & 0x80:
            return val, pos
        shift += 7


def bracket_check(data):
    """Walk the rows of a delimited stream; return a description of the first
    violation of the GRAPHS row grammar (start, triples, end), or None."""
    pos = 0
    in_graph = False
    n_row = 0
    while pos < len(data):
        n, pos = read_varint(data, pos)
        frame = jelly.RdfStreamFrame()
        frame.ParseFromString(data[pos : pos + n])
        pos += n
        for row in frame.rows:
            n_row += 1
            kind = row.WhichOneof("row")
            if kind == "graph_start":
                if in_graph:
                    return f"row {n_row}: graph_start inside a graph that was not ended"
                in_graph = True
            elif kind == "graph_end":
                if not in_graph:
                    return f"row {n_row}: graph_end without graph_start"
                in_graph = False
            elif kind == "triple" and not in_graph:
                return f"row {n_row}: triple outside a graph"
    if in_graph:
        return "stream ends inside a graph"
    return None


def q(i, g):
    return Quad(
        IRI(f"http://e/s{i}"), IRI("http://e/p"), Literal(f"v{i}"), IRI(f"http://g/{g}")
    )


def new_stream():
    options = SerializerOptions(
        frame_size=3,
        params=StreamParameters(generalized_statements=True, rdf_star=True),
    )
    return GraphStream(
        encoder=GenericSinkTermEncoder(lookup_preset=options.lookup_preset),
        options=options,
    )


def finish(stream, out):
    """What a caller does that carries on with the same stream."""
    for frame in stream_frames(stream, iter([q(100, "after")])):
        write_delimited(frame, out)


defects = []


def report(name, stream, out, error):
    data = out.getvalue()
    problem = bracket_check(data)
    try:
        parsed = [str(s.g) for s in parse_jelly_flat(io.BytesIO(data))]
        own = f"pyjelly's own parser reads {len(parsed)} quads without complaint"
    except Exception as e:  # noqa: BLE001
        own = f"pyjelly's own parser: {type(e).__name__}: {e}"
    print(f"--- {name}")
    print(f"    interruption seen by the caller: {error}")
    print(f"    stream.failed after it: {stream.failed}")
    print(f"    row grammar of everything written: {problem or 'valid'}")
    print(f"    {own}")
    if problem:
        defects.append(name)


# 1. C20 rejection cause "malformed statement tuple": a Triple among the quads.
stream = new_stream()
out = io.BytesIO()
statements = [q(0, 1), q(1, 1), q(2, 1), Triple(IRI("http://e/x"), IRI("http://e/p"), Literal("no g")), q(3, 2)]
err = None
try:
    for frame in stream_frames(stream, iter(statements)):
        write_delimited(frame, out)
except Exception as e:  # noqa: BLE001
    err = f"{type(e).__name__}: {e}"
finish(stream, out)
report("malformed statement (a Triple) in the input of a GraphStream", stream, out, err)


# 2. The statement source fails in the middle of a graph (any exception, also
#    KeyboardInterrupt), the caller handles it and goes on with the next batch.
def failing_source():
    yield q(0, 1)
    yield q(1, 1)
    raise ConnectionError("source went away")


stream = new_stream()
out = io.BytesIO()
err = None
try:
    for frame in stream_frames(stream, failing_source()):
        write_delimited(frame, out)
except ConnectionError as e:
    err = f"{type(e).__name__}: {e}"
finish(stream, out)
report("statement iterator raises in the middle of a graph", stream, out, err)

# 3. GraphStream.graph() driven directly and closed early.
stream = new_stream()
stream.enroll()
out = io.BytesIO()
triples = [Triple(IRI(f"http://e/s{i}"), IRI("http://e/p"), Literal(f"v{i}")) for i in range(10)]
gen = stream.graph(IRI("http://g/1"), triples)
write_delimited(next(gen), out)
gen.close()
for frame in stream.graph(IRI("http://g/2"), triples[:2]):
    write_delimited(frame, out)
if frame := stream.flow.to_stream_frame():
    write_delimited(frame, out)
report("GraphStream.graph() generator closed after its first frame", stream, out, "none (close())")

print()
if defects:
    print(f"DEFECT: {len(defects)} scenario(s) wrote a GRAPHS stream with nested graphs")
    sys.exit(1)
print("ok: no nested graph was written")
sys.exit(0)
