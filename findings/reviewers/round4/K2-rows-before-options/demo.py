"""
Stream.namespace_declaration() / triple() / quad() / graph() used on a stream that
was not enrolled yet write their rows BEFORE the options row (or without any):
the output cannot be read by anybody, and nothing is raised while writing.

Exits 1 when the defect shows, 0 otherwise.
Run:  /venv/bin/python demo.py
"""

import io
import sys

WT = "/tmp/h4/wt-K2"
sys.path.insert(0, WT)

import pyjelly  # noqa: E402
import pyjelly.parse.ioutils  # noqa: E402

assert pyjelly.__file__.startswith(WT), pyjelly.__file__
assert pyjelly.parse.ioutils.__file__.startswith(WT), pyjelly.parse.ioutils.__file__

from rdflib import Graph, URIRef  # noqa: E402
from rdflib import Literal as RdfLiteral  # noqa: E402

from pyjelly import jelly  # noqa: E402
from pyjelly.integrations.generic.generic_sink import IRI, Literal, Triple  # noqa: E402
from pyjelly.integrations.generic.parse import parse_jelly_flat  # noqa: E402
from pyjelly.integrations.generic.serialize import (  # noqa: E402
    GenericSinkTermEncoder,
    stream_frames,
)
from pyjelly.options import StreamParameters  # noqa: E402
from pyjelly.serialize.ioutils import write_delimited  # noqa: E402
from pyjelly.serialize.streams import SerializerOptions, TripleStream  # noqa: E402


def row_kinds(data):
    kinds = []
    pos = 0
    while pos < len(data):
        shift = n = 0
        while True:
            b = data[pos]
            pos += 1
            n |= (b & 0x7F) << shift
            shift += 7
            if not b & 0x80:
                break
        frame = jelly.RdfStreamFrame()
        frame.ParseFromString(data[pos : pos + n])
        pos += n
        kinds += [row.WhichOneof("row") for row in frame.rows]
    return kinds


defects = []


def report(name, data, reader):
    kinds = row_kinds(data)
    print(f"--- {name}")
    shown = kinds[:8] + (["..."] if len(kinds) > 8 else [])
    print(f"    rows written ({len(kinds)}): {shown}")
    try:
        result = reader(io.BytesIO(data))
        print(f"    read back: {result}")
    except Exception as e:  # noqa: BLE001
        print(f"    reading it back fails: {type(e).__name__}: {e}")
    if not kinds or kinds[0] != "options":
        print("    -> the options row is not the first row")
        defects.append(name)


triples = [
    Triple(IRI("http://example.org/a"), IRI("http://example.org/p"), Literal("1")),
    Triple(IRI("http://example.org/b"), IRI("http://example.org/p"), Literal("2")),
]
options = SerializerOptions(params=StreamParameters(namespace_declarations=True))

# 1. Declaring a namespace for a flat stream of statements. stream_frames() declares
#    namespaces only for a sink; for a generator of statements calling
#    Stream.namespace_declaration() is the only way there is.
stream = TripleStream(encoder=GenericSinkTermEncoder(), options=options)
stream.namespace_declaration("ex", "http://example.org/")  # accepted
out = io.BytesIO()
for frame in stream_frames(stream, iter(triples)):  # accepted
    write_delimited(frame, out)
report(
    "namespace_declaration() before stream_frames() (generic)",
    out.getvalue(),
    lambda f: list(parse_jelly_flat(f)),
)

# 2. The same through rdflib: a prepared stream handed to Graph.serialize().
g = Graph()
g.add((URIRef("http://example.org/a"), URIRef("http://example.org/p"), RdfLiteral("1")))
stream = TripleStream.for_rdflib(
    SerializerOptions(params=StreamParameters(namespace_declarations=True))
)
stream.namespace_declaration("ex", "http://example.org/")
out = io.BytesIO()
g.serialize(out, format="jelly", stream=stream)


def read_rdflib(f):
    return len(Graph().parse(f, format="jelly"))


report("namespace_declaration() before Graph.serialize(stream=...)", out.getvalue(), read_rdflib)

# 3. Driving a stream statement by statement without enroll(): no options row at all.
stream = TripleStream(encoder=GenericSinkTermEncoder(), options=SerializerOptions(frame_size=1))
out = io.BytesIO()
for t in triples:
    if frame := stream.triple(t):  # accepted
        write_delimited(frame, out)
report("triple() without enroll()", out.getvalue(), lambda f: list(parse_jelly_flat(f)))

print()
if defects:
    print(f"DEFECT: {len(defects)} sequence(s) accepted by the writer gave a stream that does not start with its options row")
    sys.exit(1)
print("ok")
sys.exit(0)
