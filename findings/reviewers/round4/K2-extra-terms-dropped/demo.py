"""
A statement with MORE terms than the stream's arity is accepted and silently cut
down: a Quad handed to a writer that settled on triples loses its graph name.
(The opposite case, too few terms, raises.)

Exits 1 when the defect shows, 0 otherwise.
Run:  /venv/bin/python demo.py
"""

import io
import sys

WT = "/tmp/h4/wt-K2"
sys.path.insert(0, WT)

import pyjelly  # noqa: E402
import pyjelly.parse.ioutils  # noqa: E402

assert pyjelly.__file__.startswith(WT), pyjelly.__file__
assert pyjelly.parse.ioutils.__file__.startswith(WT), pyjelly.parse.ioutils.__file__

from rdflib import Literal as RdfLiteral  # noqa: E402
from rdflib import URIRef  # noqa: E402

import pyjelly.integrations.generic.serialize as gs  # noqa: E402
import pyjelly.integrations.rdflib.parse as rp  # noqa: E402
import pyjelly.integrations.rdflib.serialize as rs  # noqa: E402
from pyjelly.integrations.generic.generic_sink import (  # noqa: E402
    IRI,
    GenericStatementSink,
    Literal,
    Quad,
    Triple,
)
from pyjelly.integrations.generic.parse import parse_jelly_flat  # noqa: E402
from pyjelly.serialize.streams import QuadStream, TripleStream  # noqa: E402

lost = []


def check(name, written, read_back):
    dropped = [s for s in written if s not in read_back]
    print(f"--- {name}")
    print(f"    handed to the writer : {len(written)} statements")
    print(f"    read back            : {read_back}")
    if dropped:
        print(f"    NOT in the output    : {dropped}")
        lost.append(name)


# 1. GenericStatementSink.serialize(): default-graph statements added as Triple,
#    named-graph statements as Quad (the store is typed deque[Triple | Quad]).
t = Triple(IRI("http://e/s"), IRI("http://e/p"), Literal("in the default graph"))
q = Quad(IRI("http://e/s"), IRI("http://e/p"), Literal("in graph g1"), IRI("http://g/1"))
sink = GenericStatementSink()
sink.add(t)
sink.add(q)
out = io.BytesIO()
sink.serialize(out)  # no exception
back = GenericStatementSink()
back.parse(io.BytesIO(out.getvalue()))
check("GenericStatementSink.serialize, Triple then Quad", [t, q], list(back))

# 2. generic flat_stream_to_file
out = io.BytesIO()
gs.flat_stream_to_file(iter([t, q]), out)  # no exception
check(
    "generic flat_stream_to_file, Triple then Quad",
    [t, q],
    list(parse_jelly_flat(io.BytesIO(out.getvalue()))),
)

# 3. rdflib flat_stream_to_file
rt = (URIRef("http://e/s"), URIRef("http://e/p"), RdfLiteral("in the default graph"))
rq = (URIRef("http://e/s"), URIRef("http://e/p"), RdfLiteral("in graph g1"), URIRef("http://g/1"))
out = io.BytesIO()
rs.flat_stream_to_file(iter([rt, rq]), out)  # no exception
check(
    "rdflib flat_stream_to_file, triple then quad",
    [rt, rq],
    [tuple(s) for s in rp.parse_jelly_flat(io.BytesIO(out.getvalue()))],
)

# 4. The streams themselves: too many terms are cut, too few are refused.
for cls, method, good in ((TripleStream, "triple", 3), (QuadStream, "quad", 4)):
    terms = [IRI(f"http://e/{i}") for i in range(good + 1)]
    stream = cls(encoder=gs.GenericSinkTermEncoder())
    stream.enroll()
    try:
        getattr(stream, method)(terms)
        print(f"--- {cls.__name__}.{method}() with {good + 1} terms: accepted, last term dropped")
        lost.append(f"{cls.__name__} {good + 1} terms")
    except Exception as e:  # noqa: BLE001
        print(f"--- {cls.__name__}.{method}() with {good + 1} terms: {type(e).__name__}: {e}")
    stream = cls(encoder=gs.GenericSinkTermEncoder())
    stream.enroll()
    try:
        getattr(stream, method)(terms[: good - 1])
        print(f"    with {good - 1} terms: accepted")
    except Exception as e:  # noqa: BLE001
        print(f"    with {good - 1} terms: {type(e).__name__}: {e}")

# the reverse order is refused, which shows the library does mean to check arity
sink = GenericStatementSink()
sink.add(q)
sink.add(t)
try:
    sink.serialize(io.BytesIO())
    print("--- Quad then Triple: accepted")
except Exception as e:  # noqa: BLE001
    print(f"--- Quad then Triple: {type(e).__name__}: {e}")

print()
if lost:
    print(f"DEFECT: terms silently dropped in {len(lost)} case(s): {lost}")
    sys.exit(1)
print("ok: nothing dropped silently")
sys.exit(0)
