#!/venv/bin/python
"""
Every Stream (TripleStream / QuadStream / GraphStream) and every GenericSinkTermEncoder
created in the mypyc-compiled build is initialised twice and never gives back what the
first initialisation stored: the term encoder with its three lookup tables stays alive
for ever.  One Graph.serialize(format="jelly") / GenericStatementSink.serialize() call
leaks the whole vocabulary of the written data (about 0.8 MB for 4000 subjects).

The script builds the compiled variant in a temporary directory (about 30 s), runs the
same child program against the interpreted tree and the compiled tree, prints both
results and exits 1 if the compiled build leaks while the interpreted one does not.
"""
import json
import os
import shutil
import subprocess
import sys
import tempfile

WT = os.environ.get("PYJELLY_WT", "/tmp/h4/wt-K1")
PY = "/venv/bin/python"
MODULES = [
    "pyjelly/serialize/ioutils.py",
    "pyjelly/integrations/generic/serialize.py",
    "pyjelly/parse/lookup.py",
    "pyjelly/parse/ioutils.py",
    "pyjelly/serialize/streams.py",
    "pyjelly/parse/decode.py",
    "pyjelly/serialize/encode.py",
    "pyjelly/serialize/lookup.py",
]

CHILD = r'''
import sys, gc, io, json, collections
root, compiled = sys.argv[1], sys.argv[2] == "1"
sys.path.insert(0, root)
import pyjelly, pyjelly.parse.ioutils, pyjelly.serialize.streams as streams
assert pyjelly.__file__.startswith(root) and pyjelly.parse.ioutils.__file__.startswith(root)
if compiled:
    assert streams.__file__.endswith(".so") and streams.__file__.startswith(root), streams.__file__
    for k, m in list(sys.modules.items()):
        if k.endswith("__mypyc"):
            assert m.__file__.startswith(root), m.__file__
else:
    assert streams.__file__.endswith(".py")

import rdflib
import pyjelly.integrations.rdflib  # registers the plugin
from pyjelly.integrations.generic.generic_sink import GenericStatementSink, Triple, IRI, Literal
from pyjelly.integrations.generic.serialize import GenericSinkTermEncoder
from pyjelly.serialize.streams import TripleStream
from pyjelly.serialize.encode import TermEncoder

def rss_kib():
    return int(open("/proc/self/statm").read().split()[1]) * 4096 // 1024

def live(name):
    gc.collect()
    return sum(1 for o in gc.get_objects() if type(o).__name__ == name)

def per_call(f, k):
    f(); gc.collect()
    b0, l0, r0 = sys.getallocatedblocks(), live("Lookup"), rss_kib()
    for _ in range(k):
        f()
    gc.collect()
    return {
        "blocks_per_call": round((sys.getallocatedblocks() - b0) / k, 1),
        "lookup_objects_left_per_call": (live("Lookup") - l0) / k,
        "rss_growth_kib": rss_kib() - r0,
    }

g = rdflib.Graph()
for i in range(2000):
    g.add((rdflib.URIRef("http://example.org/resource/item%d" % i),
           rdflib.URIRef("http://example.org/vocab/property%d" % (i % 50)),
           rdflib.Literal("value %d" % i)))
sink = GenericStatementSink()
for i in range(2000):
    sink.add(Triple(IRI("http://example.org/resource/item%d" % i), IRI("http://example.org/vocab/p"), Literal("v%d" % i)))

class Null:
    def write(self, b): return len(b)

res = {
    "rdflib Graph.serialize(format='jelly') x30": per_call(lambda: g.serialize(format="jelly", encoding="utf-8"), 30),
    "GenericStatementSink.serialize x30": per_call(lambda: sink.serialize(Null()), 30),
    "TripleStream(encoder=TermEncoder()) x30 (nothing written)": per_call(lambda: TripleStream(encoder=TermEncoder()), 30),
    "GenericSinkTermEncoder() x30 (nothing written)": per_call(lambda: GenericSinkTermEncoder(), 30),
}

# how many times does Stream.__init__ run for ONE construction? It creates one flow per run.
from pyjelly.serialize import flows
from pyjelly.serialize.streams import QuadStream, GraphStream, SerializerOptions
count = [0]
orig_init = flows.BoundedFrameFlow.__init__
def counting(self, *a, **k):
    count[0] += 1
    orig_init(self, *a, **k)
flows.BoundedFrameFlow.__init__ = counting
runs = {}
for cls in (TripleStream, QuadStream, GraphStream):
    count[0] = 0
    cls(encoder=TermEncoder(), options=SerializerOptions())
    runs[cls.__name__] = count[0]
flows.BoundedFrameFlow.__init__ = orig_init
enc = TermEncoder()
before = sys.getrefcount(enc)
s = TripleStream(encoder=enc)
del s
gc.collect()
res["__init__ runs per construction"] = runs
res["refcount of an encoder before / after a stream using it lived and died"] = [before, sys.getrefcount(enc)]
print(json.dumps(res))
'''


def build(tmp: str) -> str:
    b = os.path.join(tmp, "b")
    os.makedirs(b)
    shutil.copytree(
        os.path.join(WT, "pyjelly"),
        os.path.join(b, "pyjelly"),
        ignore=shutil.ignore_patterns("__pycache__"),
        symlinks=True,
    )
    cmd = [
        PY, "-m", "mypyc", "--ignore-missing-imports", "--no-warn-no-return",
        "--disable-error-code=arg-type", "--disable-error-code=unused-ignore", *MODULES,
    ]
    r = subprocess.run(cmd, cwd=b, capture_output=True, text=True)
    if r.returncode != 0:
        print(r.stdout[-2000:], r.stderr[-2000:])
        raise SystemExit("mypyc build failed")
    shutil.rmtree(os.path.join(b, "build"), ignore_errors=True)
    return b


def run_child(root: str, compiled: bool, tmp: str) -> dict:
    child = os.path.join(tmp, "child.py")
    with open(child, "w") as f:
        f.write(CHILD)
    r = subprocess.run(
        [PY, child, root, "1" if compiled else "0"],
        capture_output=True, text=True, cwd=tmp,
    )
    if r.returncode != 0:
        print(r.stdout, r.stderr)
        raise SystemExit("child failed")
    return json.loads(r.stdout.strip().splitlines()[-1])


def main() -> int:
    tmp = tempfile.mkdtemp(prefix="k1-leak-")
    try:
        print("building the compiled variant in", tmp, "...", flush=True)
        b = build(tmp)
        interp = run_child(WT, False, tmp)
        comp = run_child(b, True, tmp)
    finally:
        shutil.rmtree(tmp, ignore_errors=True)
    bad = False
    for key in interp:
        i, c = interp[key], comp[key]
        print(f"\n{key}")
        print(f"   interpreted: {i}")
        print(f"   compiled   : {c}")
        if not isinstance(c, dict) or "lookup_objects_left_per_call" not in c:
            continue
        if c["lookup_objects_left_per_call"] >= 1 and i["lookup_objects_left_per_call"] == 0:
            bad = True
    if bad:
        print(
            "\nDEFECT: in the compiled build every stream / encoder leaves its lookup tables "
            "behind after it was dropped and gc.collect() ran; memory grows with every "
            "serialization call. The interpreted build frees everything."
        )
        return 1
    print("\nno leak observed")
    return 0


if __name__ == "__main__":
    sys.exit(main())
