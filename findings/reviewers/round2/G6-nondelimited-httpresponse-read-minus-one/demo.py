"""C09: a non-delimited stream read from an http.client.HTTPResponse (what
urllib.request.urlopen() and rdflib's Graph.parse(<http url>) hand to the parser) is not
parsed like the same bytes from memory: the HTTP transfer framing leaks into the data."""
import os, sys; sys.path.insert(0, os.getcwd())
import pyjelly
assert pyjelly.__file__.startswith(os.getcwd()), pyjelly.__file__

import http.client
import io
import socket

from rdflib import Graph, Literal, URIRef

from pyjelly.integrations.generic.parse import parse_jelly_flat as generic_flat
from pyjelly.integrations.rdflib.parse import parse_jelly_flat
from pyjelly.options import StreamParameters
from pyjelly.serialize.streams import SerializerOptions

g = Graph()
for i in range(20):
    g.add((URIRef(f"http://example.org/s{i}"), URIRef("http://example.org/p"), Literal(i)))
NON_DELIMITED = g.serialize(
    format="jelly",
    encoding="utf-8",
    options=SerializerOptions(params=StreamParameters(delimited=False)),
)
DELIMITED = g.serialize(format="jelly", encoding="utf-8")
expected = list(parse_jelly_flat(io.BytesIO(NON_DELIMITED)))
assert len(expected) == 20
assert list(parse_jelly_flat(io.BytesIO(DELIMITED))) == expected


def chunked(body: bytes, sizes=(1, 2, 7, 50)) -> bytes:
    out, i, k = [], 0, 0
    while i < len(body):
        piece = body[i : i + sizes[k % len(sizes)]]
        i += len(piece)
        k += 1
        out.append(b"%x\r\n" % len(piece) + piece + b"\r\n")
    out.append(b"0\r\n\r\n")
    return b"".join(out)


def http_response(raw: bytes, *, keep_open: bool, timeout: float | None = None):
    """A genuine http.client.HTTPResponse on a genuine socket, as urlopen() returns it."""
    client, server = socket.socketpair()
    server.sendall(raw)
    if not keep_open:
        server.close()
    client.settimeout(timeout)
    response = http.client.HTTPResponse(client)
    response.begin()
    return response, server


def attempt(parser, raw, **kw):
    response, server = http_response(raw, **kw)
    try:
        return list(parser(response))
    except BaseException as e:  # noqa: BLE001
        return f"{type(e).__name__}: {e}"
    finally:
        response.close()
        server.close()


HEAD = b"HTTP/1.1 200 OK\r\nContent-Type: application/x-jelly-rdf\r\n"
failures = []

# 1. Transfer-Encoding: chunked (every streaming HTTP producer)
raw = HEAD + b"Transfer-Encoding: chunked\r\n\r\n"
control = attempt(parse_jelly_flat, raw + chunked(DELIMITED), keep_open=False)
assert control == expected, control  # the delimited twin over the same transport is fine
for name, parser in (("rdflib", parse_jelly_flat), ("generic", generic_flat)):
    got = attempt(parser, raw + chunked(NON_DELIMITED), keep_open=False)
    ok = (got == expected) if name == "rdflib" else (
        isinstance(got, list) and len(got) == len(expected)
    )
    if not ok:
        failures.append(f"[chunked body, {name} parser] expected 20 statements, got: "
                        f"{got if isinstance(got, str) else len(got)}")

# 2. Content-Length on a keep-alive connection: the parser reads past the body and
#    waits for the server to close the connection (here: until the 2 s socket timeout).
raw = HEAD + b"Content-Length: %d\r\n\r\n" % len(NON_DELIMITED) + NON_DELIMITED
got = attempt(parse_jelly_flat, raw, keep_open=True, timeout=2.0)
if got != expected:
    failures.append(f"[Content-Length body, connection kept alive] expected 20 statements, "
                    f"got: {got if isinstance(got, str) else len(got)}")

if failures:
    print("VIOLATION of C09 (parsing must not depend on the byte source):")
    for f in failures:
        print("  -", f)
    print("the same bytes in a BytesIO give", len(expected), "statements; "
          "the delimited form of the same data parses fine from the same HTTPResponse.")
    sys.exit(1)
print("ok: non-delimited stream parsed identically from HTTPResponse and from memory")
