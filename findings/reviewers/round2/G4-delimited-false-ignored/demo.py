"""C13: StreamParameters(delimited=False) is silently ignored by the *_stream_to_file entry points.

flat_stream_to_file / grouped_stream_to_file of both integrations always write length-prefixed
frames, although the same options passed to Graph.serialize(format="jelly") give a non-delimited file.
"""
import os, sys
sys.path.insert(0, os.getcwd())
import io
import pyjelly
assert pyjelly.__file__.startswith(os.getcwd()), pyjelly.__file__

import rdflib
from google.protobuf.message import DecodeError
from pyjelly import jelly
from pyjelly.options import StreamParameters
from pyjelly.serialize.streams import SerializerOptions
from pyjelly.parse.ioutils import get_options_and_frames
from pyjelly.integrations.generic import serialize as gser, generic_sink as gs
from pyjelly.integrations.rdflib import serialize as rser, parse as rp


def options():
    return SerializerOptions(
        logical_type=jelly.LOGICAL_STREAM_TYPE_FLAT_TRIPLES,
        params=StreamParameters(delimited=False),
    )


def is_single_frame(data: bytes) -> bool:
    """True if `data` is one bare RdfStreamFrame starting with an options row."""
    try:
        frame = jelly.RdfStreamFrame.FromString(data)
    except DecodeError:
        return False
    return len(frame.rows) > 0 and frame.rows[0].WhichOneof("row") == "options"


U = rdflib.URIRef
rdflib_triples = [rp.Triple(U(f"http://e/s{i}"), U("http://e/p"), U("http://e/o")) for i in range(3)]
I = gs.IRI
generic_triples = [gs.Triple(I(f"http://e/s{i}"), I("http://e/p"), I("http://e/o")) for i in range(3)]
graph = rdflib.Graph()
for t in rdflib_triples:
    graph.add(t)
sink = gs.GenericStatementSink()
for t in generic_triples:
    sink.add(t)

outputs = {}
outputs["rdflib Graph.serialize (reference)"] = graph.serialize(format="jelly", encoding="jelly", options=options())
out = io.BytesIO(); rser.flat_stream_to_file((t for t in rdflib_triples), out, options=options())
outputs["rdflib flat_stream_to_file"] = out.getvalue()
out = io.BytesIO(); rser.grouped_stream_to_file((g for g in [graph]), out, options=options())
outputs["rdflib grouped_stream_to_file"] = out.getvalue()
out = io.BytesIO(); gser.flat_stream_to_file((t for t in generic_triples), out, options=options())
outputs["generic flat_stream_to_file"] = out.getvalue()
out = io.BytesIO(); gser.grouped_stream_to_file((s for s in [sink]), out, options=options())
outputs["generic grouped_stream_to_file"] = out.getvalue()

bad = 0
for name, data in outputs.items():
    told, _ = get_options_and_frames(io.BytesIO(data))
    single = is_single_frame(data)
    verdict = "ok" if (single and not told.params.delimited) else "VIOLATION"
    if verdict != "ok":
        bad += 1
    print(f"{verdict:9} {name}: requested delimited=False, "
          f"bare single frame={single}, reader is told delimited={told.params.delimited}")

if bad:
    print("\nStreamParameters.delimited=False was ignored: the file is length-prefixed, so a consumer of a\n"
          "non-delimited Jelly file (e.g. a Kafka/gRPC message body) cannot parse it as one RdfStreamFrame.")
sys.exit(1 if bad else 0)
