"""C09: gzip.GzipFile over a non-seekable raw source (the documented
``gzip.open(response)`` pattern): whether parsing works depends on the sizes of the
short reads the transport happens to return."""
import os, sys; sys.path.insert(0, os.getcwd())
import pyjelly
assert pyjelly.__file__.startswith(os.getcwd()), pyjelly.__file__

import gzip
import io
import itertools

from rdflib import Literal, URIRef

from pyjelly.integrations.rdflib.parse import parse_jelly_flat

from pyjelly.integrations.rdflib.serialize import flat_stream_to_file

triples = [
    (URIRef(f"http://example.org/s{i}"), URIRef("http://example.org/p"), Literal(i))
    for i in range(30)
]
out = io.BytesIO()
flat_stream_to_file((t for t in triples), out)  # fixed statement order -> fixed bytes
data = out.getvalue()
expected = list(parse_jelly_flat(io.BytesIO(data)))
assert len(expected) == 30


class ShortReads(io.RawIOBase):
    """A non-seekable raw source (socket / pipe) answering every read with <= k bytes."""

    def __init__(self, payload: bytes, k: int) -> None:
        self._payload, self._pos, self._k = payload, 0, k

    def readable(self) -> bool:
        return True

    def readinto(self, b) -> int:
        n = min(len(b), self._k, len(self._payload) - self._pos)
        b[:n] = self._payload[self._pos : self._pos + n]
        self._pos += n
        return n


results = {}
for label, compressed in (
    ("deflate level 9", gzip.compress(data, 9, mtime=0)),
    ("stored (level 0)", gzip.compress(data, 0, mtime=0)),
):
    for k in range(2, 33):  # (gzip itself cannot read its magic number 1 byte at a time)
        src = gzip.GzipFile(fileobj=ShortReads(compressed, k))
        # control: the gzip layer itself copes with this read schedule
        assert gzip.GzipFile(fileobj=ShortReads(compressed, k)).read() == data
        try:
            got = list(parse_jelly_flat(src))
            results[label, k] = "ok" if got == expected else f"WRONG RESULT ({len(got)} statements)"
        except BaseException as e:  # noqa: BLE001
            results[label, k] = f"{type(e).__name__}: {e}"

bad = {key: r for key, r in results.items() if r != "ok"}
if bad:
    print("VIOLATION of C09: the same gzip'ed Jelly stream parses or fails depending on the "
          "read sizes of the transport under the gzip layer")
    for (label, k), r in bad.items():
        print(f"  - {label}, raw reads of <= {k} bytes: {r}")
    print(f"  ({len(results) - len(bad)} other read sizes give the expected {len(expected)} statements; "
          "GzipFile.read() returns the right bytes for every one of them)")
    sys.exit(1)
print("ok: all read schedules gave the same statements")
