"""C11 (live parsing): a non-seekable source that is an io.IOBase but not an
io.BufferedIOBase and whose read(n)/readinto(b) block until the request is
filled (urllib3.HTTPResponse, i.e. requests' ``Response.raw``; botocore's
StreamingBody; ...) is wrapped by pyjelly in an io.BufferedReader. The wrapper
refills its 8 KiB buffer through source.readinto(<8192 bytes>), which cannot
return before 8 KiB (or EOF) arrived: statements of frames that have completely
arrived are not yielded.

Run:  cd /tmp/wt/G7 && /venv/bin/python /tmp/hunt2/G7/live-parse-unbuffered-iobase/demo.py
      (add --real to repeat the experiment with a real requests/urllib3 response)
"""
import os, sys; sys.path.insert(0, os.getcwd())
import io

import pyjelly
assert pyjelly.__file__.startswith(os.getcwd()), pyjelly.__file__

from google.protobuf.proto import serialize_length_prefixed
from rdflib import Literal, URIRef

from pyjelly import jelly
from pyjelly.integrations.generic import parse as generic_parse
from pyjelly.integrations.rdflib import parse as rdflib_parse
from pyjelly.integrations.rdflib.serialize import flat_stream_to_frames
from pyjelly.serialize.streams import SerializerOptions


class SourceStalled(Exception):
    """The read could only be answered with bytes that will never arrive."""


class ExactReadResponse(io.IOBase):
    """Same reading contract as urllib3.HTTPResponse (v1 and v2).

    * io.IOBase subclass, not io.BufferedIOBase; readable, not seekable
    * read(amt) returns exactly amt bytes unless the body ended
    * readinto(b) is ``temp = self.read(len(b)); b[:len(temp)] = temp``
    The bytes in ``arrived`` are what the peer has sent so far; the peer then
    stalls forever (no EOF), which is modelled by raising SourceStalled.
    """

    def __init__(self, arrived: bytes) -> None:
        self._data, self._pos = arrived, 0
        self.largest_request = 0

    def readable(self) -> bool:
        return True

    def seekable(self) -> bool:
        return False

    def read(self, amt=-1):
        if amt is None or amt < 0:
            raise SourceStalled  # read-until-EOF on a stream that never ends
        self.largest_request = max(self.largest_request, amt)
        if self._pos + amt > len(self._data):
            raise SourceStalled
        chunk = self._data[self._pos : self._pos + amt]
        self._pos += amt
        return chunk

    def readinto(self, b) -> int:
        temp = self.read(len(b))
        b[: len(temp)] = temp
        return len(temp)


class ExactReadBuffered(ExactReadResponse, io.BufferedIOBase):
    """Control: identical contract, but declared as io.BufferedIOBase."""


def triples(n):
    for i in range(n):
        yield (URIRef(f"http://example.org/s{i}"), URIRef("http://example.org/p"), Literal(str(i)))


def build_frames():
    options = SerializerOptions(frame_size=3, logical_type=jelly.LOGICAL_STREAM_TYPE_FLAT_TRIPLES)
    out = []
    for frame in flat_stream_to_frames(triples(12), options):
        buf = io.BytesIO()
        serialize_length_prefixed(frame, buf)
        n_statements = sum(1 for row in frame.rows if row.HasField("triple"))
        out.append((buf.getvalue(), n_statements))
    return out


def count_until_stall(parse_flat, source) -> int:
    got = 0
    try:
        for _ in parse_flat(source):
            got += 1
    except SourceStalled:
        pass
    return got


def real_urllib3(frames) -> None:
    import http.server, threading, time
    import requests

    release = threading.Event()

    class Handler(http.server.BaseHTTPRequestHandler):
        protocol_version = "HTTP/1.1"

        def do_GET(self):
            self.send_response(200)
            self.send_header("Transfer-Encoding", "chunked")
            self.end_headers()
            for i, (data, _) in enumerate(frames):
                self.wfile.write(b"%x\r\n" % len(data) + data + b"\r\n")
                self.wfile.flush()
                if i == 1:
                    release.wait(30)  # stall after frame 2
            self.wfile.write(b"0\r\n\r\n")

        def log_message(self, *args):
            pass

    server = http.server.ThreadingHTTPServer(("127.0.0.1", 0), Handler)
    threading.Thread(target=server.serve_forever, daemon=True).start()
    got = []

    def consume():
        raw = requests.get(f"http://127.0.0.1:{server.server_port}/", stream=True).raw
        for st in rdflib_parse.parse_jelly_flat(raw):
            got.append(st)

    t = threading.Thread(target=consume, daemon=True)
    t.start()
    time.sleep(3)
    print(f"[real urllib3] 3 s after frames 1-2 arrived: {len(got)} statements yielded "
          f"(expected {frames[0][1] + frames[1][1]})")
    release.set()
    t.join(30)
    print(f"[real urllib3] after the rest arrived and the body ended: {len(got)} statements")
    server.shutdown()


def main() -> int:
    frames = build_frames()
    assert len(frames) >= 4
    failures = []
    for name, parse_flat in (
        ("rdflib  parse_jelly_flat", rdflib_parse.parse_jelly_flat),
        ("generic parse_jelly_flat", generic_parse.parse_jelly_flat),
    ):
        for j in range(1, len(frames) + 1):
            arrived = b"".join(data for data, _ in frames[:j])
            expected = sum(n for _, n in frames[:j])
            control = count_until_stall(parse_flat, ExactReadBuffered(arrived))
            assert control == expected, (control, expected)  # the byte source itself is live
            source = ExactReadResponse(arrived)
            got = count_until_stall(parse_flat, source)
            if got != expected:
                failures.append((name, j, len(arrived), got, expected, source.largest_request))
    for name, j, nbytes, got, expected, largest in failures:
        print(f"{name}: frames 1..{j} ({nbytes} bytes) arrived, source then stalls: "
              f"{got} of {expected} statements yielded; the parser asked the source for "
              f"{largest} bytes in one read")
    if "--real" in sys.argv:
        real_urllib3(frames)
    if failures:
        print("VIOLATION of C11: a urllib3-style response (IOBase, exact-size read/readinto) is "
              "wrapped in io.BufferedReader, whose refill demands 8192 bytes from the source; "
              "nothing is yielded until 8 KiB or EOF arrive, although the same source declared as "
              "BufferedIOBase is parsed live.")
        return 1
    print("OK: all statements of the frames that arrived were yielded before the parser needed more bytes")
    return 0


if __name__ == "__main__":
    sys.exit(main())
