"""C03: a stream built the way the generic integration is meant to be used
(Stream(encoder=GenericSinkTermEncoder(), options=SerializerOptions(lookup_preset=...)))
advertises options.lookup_preset in its options row but assigns ids from the
encoder's own (default, larger) tables, so ids exceed the declared table size.
"""
import os, sys; sys.path.insert(0, os.getcwd())
import io
import pyjelly
assert pyjelly.__file__.startswith(os.getcwd()), pyjelly.__file__

from pyjelly import jelly
from pyjelly.options import LookupPreset
from pyjelly.serialize.ioutils import write_delimited
from pyjelly.serialize.streams import SerializerOptions, TripleStream
from pyjelly.integrations.generic.generic_sink import IRI, Literal, Triple
from pyjelly.integrations.generic.serialize import GenericSinkTermEncoder, stream_frames
from pyjelly.integrations.generic.parse import parse_jelly_flat

declared = LookupPreset(max_names=8, max_prefixes=2, max_datatypes=0)
options = SerializerOptions(lookup_preset=declared)
# The generic integration has no Stream.for_generic(); the encoder is passed by hand
# (this is how pyjelly's own tests build generic streams).  The encoder falls back to
# LookupPreset() = 4000/150/32 and nothing checks it against options.lookup_preset.
stream = TripleStream(encoder=GenericSinkTermEncoder(), options=options)

statements = [
    Triple(IRI(f"http://ex{i}/s{i}"), IRI("http://e/p"), Literal(str(i), datatype="http://dt/int"))
    for i in range(10)
]
out = io.BytesIO()
for frame in stream_frames(stream, (s for s in statements)):
    write_delimited(frame, out)
raw = out.getvalue()

# --- independent check of the emitted bytes (protobuf classes only) ---
def frames(data):
    pos = 0
    while pos < len(data):
        n = shift = 0
        while True:
            b = data[pos]; pos += 1
            n |= (b & 0x7F) << shift; shift += 7
            if not b & 0x80:
                break
        yield jelly.RdfStreamFrame.FromString(data[pos:pos + n]); pos += n

problems = []
opts = None
last = {"name": 0, "prefix": 0, "datatype": 0}
for frame in frames(raw):
    for row in frame.rows:
        kind = row.WhichOneof("row")
        if kind == "options":
            opts = row.options
            size = {"name": opts.max_name_table_size, "prefix": opts.max_prefix_table_size,
                    "datatype": opts.max_datatype_table_size}
        elif kind in last:
            entry = getattr(row, kind)
            idx = entry.id or last[kind] + 1
            last[kind] = idx
            if idx > size[kind]:
                problems.append(f"{kind} entry id {idx} ({entry.value!r}) > declared {kind} table size {size[kind]}")

readable = True
try:
    decoded = list(parse_jelly_flat(io.BytesIO(raw)))
    readable = len(decoded) == len(statements)
except Exception as e:  # noqa: BLE001
    readable = False
    problems.append(f"pyjelly's own parser fails on the output: {type(e).__name__}: {e}")

if problems:
    print("C03 VIOLATED: options row declares tables "
          f"{opts.max_name_table_size}/{opts.max_prefix_table_size}/{opts.max_datatype_table_size} "
          "but the stream contains:")
    for p in problems[:6]:
        print("  -", p)
    sys.exit(1)
print("ok: all ids within the declared table sizes")
