"""C17: a 120-byte Jelly stream makes the rdflib entry points allocate hundreds of MB.

The stream holds ONE triple whose object is the literal "1E+200000000"^^xsd:decimal
(12 characters).  RDFLibAdapter.literal() calls rdflib.Literal(lex, datatype=...) with
rdflib's default normalize=True, which converts the lexical form to decimal.Decimal and
back with format(value, "f"): a string of 200,000,001 characters.  The exponent is
attacker-chosen (up to 999999999999999999), so the allocation is bounded only by RAM.
The generic integration parses the same bytes in microseconds.
"""
import os, sys; sys.path.insert(0, os.getcwd())
import pyjelly; assert pyjelly.__file__.startswith(os.getcwd())
import io, time, tracemalloc, logging
from google.protobuf.proto import serialize_length_prefixed
from pyjelly import jelly
from pyjelly.integrations.generic.parse import parse_jelly_flat as generic_flat
from pyjelly.integrations.rdflib.parse import parse_jelly_flat as rdflib_flat

logging.disable(logging.CRITICAL)
EXP = 200_000_000  # 2e8 keeps the demo at ~0.4 GB; "1E+99999999999" asks for 100 GB

f = jelly.RdfStreamFrame()
o = f.rows.add().options
o.physical_type = jelly.PHYSICAL_STREAM_TYPE_TRIPLES
o.logical_type = jelly.LOGICAL_STREAM_TYPE_FLAT_TRIPLES
o.max_name_table_size = 8
o.max_prefix_table_size = 0
o.max_datatype_table_size = 8
o.version = 1
d = f.rows.add().datatype
d.id = 1
d.value = "http://www.w3.org/2001/XMLSchema#decimal"
n = f.rows.add().name
n.id = 1
n.value = "http://example.org/x"
t = f.rows.add().triple
t.s_iri.name_id = 1
t.p_iri.name_id = 1
t.o_literal.lex = f"1E+{EXP}"
t.o_literal.datatype = 1
out = io.BytesIO()
serialize_length_prefixed(f, out)
data = out.getvalue()

bad = False
for label, fn in (("generic", generic_flat), ("rdflib", rdflib_flat)):
    tracemalloc.start()
    t0 = time.perf_counter()
    try:
        stmts = list(fn(io.BytesIO(data)))
        outcome = f"{len(stmts)} statement(s), object literal has {len(str(stmts[0][2])):,} characters"
    except MemoryError:
        stmts, outcome = [], "MemoryError"
    dt = time.perf_counter() - t0
    _, peak = tracemalloc.get_traced_memory()
    tracemalloc.stop()
    del stmts
    print(f"{label}: input {len(data)} bytes -> {outcome}; peak traced memory "
          f"{peak / 2**20:.1f} MiB, {dt:.2f}s")
    if peak > 10 * 2**20:
        bad = True

if bad:
    print("VIOLATION (C17): a ~120-byte input made the parser allocate hundreds of MiB "
          "(size chosen by a 9-digit exponent inside the literal, i.e. merely declared).")
    sys.exit(1)
print("ok")
