"""C04: Graph().parse(<QUADS or GRAPHS jelly stream>, format="jelly") returns an empty graph, no error.

Every statement (also those of the default graph) ends up in hidden contexts of the graph's store
(`urn:x-rdflib:default`, named graphs) that the Graph the caller holds cannot see.
"""
import os, sys
sys.path.insert(0, os.getcwd())
import io
import pyjelly
assert pyjelly.__file__.startswith(os.getcwd()), pyjelly.__file__

import rdflib
from rdflib import Dataset, Graph, Literal, URIRef

ds = Dataset()
s, p = URIRef("http://e/s"), URIRef("http://e/p")
ds.add((s, p, Literal("in the default graph")))
ds.add((s, p, Literal("in a named graph"), URIRef("http://e/g")))
quads_jelly = ds.serialize(format="jelly", encoding="jelly")

g = Graph()
try:
    g.parse(data=quads_jelly, format="jelly")
except Exception as e:
    print(f"refused: {type(e).__name__}: {e}")
    sys.exit(0)

hidden = list(g.store.triples((None, None, None)))
print(f"stream has 2 quads (1 in the default graph); Graph.parse() raised nothing; len(graph) = {len(g)}")
print(f"statements sitting in the graph's store under other contexts: {len(hidden)}")

# what rdflib's own quad parser does with the same data and the same kind of sink
ref = Graph()
ref.parse(data=ds.serialize(format="nquads"), format="nquads")
print(f"for comparison, format='nquads' into a Graph: len(graph) = {len(ref)} (the default-graph statement)")

if len(g) == 0:
    print("\nVIOLATION: the parser returned none of the statements the stream encodes and did not raise.")
    sys.exit(1)
sys.exit(0)
