"""C07: with a grouped logical type an EMPTY input graph gets a frame of its own when it is first
(or, with namespace declarations on, anywhere) but not otherwise -- frames != non-empty inputs."""
import os, sys; sys.path.insert(0, os.getcwd())
import io
import pyjelly
assert pyjelly.__file__.startswith(os.getcwd()), pyjelly.__file__

import rdflib
from rdflib import Graph, URIRef
from pyjelly import jelly
from pyjelly.integrations.generic import parse as gparse, serialize as gser
from pyjelly.integrations.generic.generic_sink import IRI, GenericStatementSink, Literal, Triple
from pyjelly.integrations.rdflib import parse as rparse, serialize as rser
from pyjelly.options import StreamParameters
from pyjelly.parse.ioutils import get_options_and_frames
from pyjelly.serialize.streams import SerializerOptions


def rgraph(n, off):
    g = Graph(bind_namespaces="none")
    g.bind("ex", URIRef("http://e/"))
    for i in range(n):
        g.add((URIRef(f"http://e/s{off}_{i}"), URIRef("http://e/p"), rdflib.Literal(str(i))))
    return g


def gsink(n, off):
    s = GenericStatementSink()
    s.bind("ex", IRI("http://e/"))
    for i in range(n):
        s.add(Triple(IRI(f"http://e/s{off}_{i}"), IRI("http://e/p"), Literal(str(i))))
    return s


def frames_written(mod, mk, sizes, nsd):
    out = io.BytesIO()
    options = SerializerOptions(
        logical_type=jelly.LOGICAL_STREAM_TYPE_GRAPHS,
        params=StreamParameters(namespace_declarations=nsd),
    )
    mod.grouped_stream_to_file((mk(n, k) for k, n in enumerate(sizes)), out, options=options)
    _, frames = get_options_and_frames(io.BytesIO(out.getvalue()))
    return len(list(frames))


bad = []
for name, mod, mk in (("rdflib", rser, rgraph), ("generic", gser, gsink)):
    for nsd in (False, True):
        for sizes in ([0, 2, 3], [2, 0, 3], [2, 3, 0]):
            want = sum(1 for n in sizes if n)  # one frame per NON-EMPTY input graph
            got = frames_written(mod, mk, sizes, nsd)
            mark = "" if got == want else "   <-- violation"
            print(f"{name:8} namespace_declarations={nsd!s:5} input sizes {sizes}: {got} frames, property demands {want}{mark}")
            if got != want:
                bad.append((name, nsd, sizes, got))

if bad:
    print()
    print("C07 VIOLATION: the number of frames depends on WHERE the empty graph is (and on the")
    print("namespace option), not on the number of non-empty input graphs; a grouped reader gets a")
    print("different number of graphs for [empty, A, B] than for [A, empty, B].")
    sys.exit(1)
print("ok")
