"""C06/C07: generic grouped_stream_to_file with an empty FIRST sink guesses a QUADS stream, writes the
options frame, then dies on the first triple -- a partial file and an unrelated RuntimeError."""
import os, sys; sys.path.insert(0, os.getcwd())
import io
import pyjelly
assert pyjelly.__file__.startswith(os.getcwd()), pyjelly.__file__

from pyjelly.integrations.generic.generic_sink import IRI, GenericStatementSink, Literal, Triple
from pyjelly.integrations.generic.parse import parse_jelly_flat
from pyjelly.integrations.generic.serialize import grouped_stream_to_file

empty = GenericStatementSink()
full = GenericStatementSink()
triples = [Triple(IRI(f"http://e/s{i}"), IRI("http://e/p"), Literal(str(i))) for i in range(3)]
for t in triples:
    full.add(t)

# control: the same sinks in the other order are written fine
ctl = io.BytesIO()
grouped_stream_to_file(iter([full, empty]), ctl)
assert list(parse_jelly_flat(io.BytesIO(ctl.getvalue()))) == triples

out = io.BytesIO()
try:
    grouped_stream_to_file(iter([empty, full]), out)  # e.g. a window stream whose first window is empty
except Exception as e:
    print("C06/C07 VIOLATION: sequence [empty sink, sink with 3 triples] (default options) failed with")
    print(f"  {e!r}")
    print(f"  after {len(out.getvalue())} bytes had already been written to the output (a partial file")
    print("  announcing a QUADS stream); the sequence [sink with 3 triples, empty sink] is written fine.")
    sys.exit(1)
back = list(parse_jelly_flat(io.BytesIO(out.getvalue())))
if back != triples:
    print("C06 VIOLATION: read back", back)
    sys.exit(1)
print("ok")
