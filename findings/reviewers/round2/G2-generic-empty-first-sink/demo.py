"""C15: a sequence of graphs whose FIRST graph is empty.

rdflib's grouped serializer writes a valid TRIPLES stream; the generic grouped
serializer, given the corresponding sinks and the same options, decides from the empty
first sink that the data are QUADS and fails (or leaves a truncated QUADS stream).
The same happens when the generic integration re-serialises what its own grouped
parser returned for a valid TRIPLES stream whose first frame carries no triple.
"""
import os, sys; sys.path.insert(0, os.getcwd())
import io
import pyjelly
assert pyjelly.__file__.startswith(os.getcwd()), pyjelly.__file__

from rdflib import Graph, URIRef
from pyjelly import jelly
from pyjelly.serialize.streams import SerializerOptions
from pyjelly.integrations.generic.generic_sink import GenericStatementSink, IRI, Triple
from pyjelly.integrations.generic import parse as gp, serialize as gs
from pyjelly.integrations.rdflib import parse as rp, serialize as rs

S, P, O = "http://e.org/s", "http://e.org/p", "http://e.org/o"


def rdflib_graphs():
    yield Graph()                                   # e.g. an empty first window
    g = Graph(); g.add((URIRef(S), URIRef(P), URIRef(O))); yield g


def generic_sinks():
    yield GenericStatementSink()
    s = GenericStatementSink(); s.add(Triple(IRI(S), IRI(P), IRI(O))); yield s


def opts():
    return SerializerOptions(logical_type=jelly.LOGICAL_STREAM_TYPE_FLAT_TRIPLES)


problems = []

out_r = io.BytesIO()
rs.grouped_stream_to_file(rdflib_graphs(), out_r, options=opts())
print("rdflib : %d bytes, graphs parsed back: %s" % (
    len(out_r.getvalue()),
    [len(g) for g in rp.parse_jelly_grouped(io.BytesIO(out_r.getvalue()))]))

# 1. same options, corresponding data
out_g = io.BytesIO()
try:
    gs.grouped_stream_to_file(generic_sinks(), out_g, options=opts())
except BaseException as e:  # noqa: BLE001
    problems.append(f"generic serializer, same options: {type(e).__name__}: {e}")
else:
    if out_g.getvalue() != out_r.getvalue():
        problems.append("generic serializer, same options: bytes differ from rdflib's")

# 2. options omitted: a truncated stream with the wrong physical type is left behind
out_g2 = io.BytesIO()
try:
    gs.grouped_stream_to_file(generic_sinks(), out_g2)
except BaseException as e:  # noqa: BLE001
    frame = jelly.RdfStreamFrame()
    frame.ParseFromString(out_g2.getvalue()[1:])
    pt = jelly.PhysicalStreamType.Name(frame.rows[0].options.physical_type)
    problems.append(
        f"generic serializer, options omitted: {type(e).__name__}: {e}; "
        f"{len(out_g2.getvalue())} bytes already written, declaring {pt}"
    )
else:
    got = [len(s) for s in gp.parse_jelly_grouped(io.BytesIO(out_g2.getvalue()))]
    if got != [0, 1]:
        problems.append(f"generic serializer, options omitted: parsed back {got}")

# 3. generic parse -> generic serialize of the valid stream rdflib wrote
try:
    out_g3 = io.BytesIO()
    gs.grouped_stream_to_file(
        gp.parse_jelly_grouped(io.BytesIO(out_r.getvalue())), out_g3, options=opts()
    )
    if out_g3.getvalue() != out_r.getvalue():
        problems.append("generic parse->serialize: bytes differ from rdflib parse->serialize")
except BaseException as e:  # noqa: BLE001
    problems.append(f"generic parse_jelly_grouped -> grouped_stream_to_file: {type(e).__name__}: {e}")

out_r3 = io.BytesIO()
rs.grouped_stream_to_file(rp.parse_jelly_grouped(io.BytesIO(out_r.getvalue())), out_r3, options=opts())
print("rdflib parse->serialize reproduces the stream:", out_r3.getvalue() == out_r.getvalue())

if problems:
    print("VIOLATION (C15):")
    for p in problems:
        print(" -", p)
    sys.exit(1)
print("ok")
