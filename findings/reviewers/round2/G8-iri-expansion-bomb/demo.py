"""C17: a ~1 MB Jelly stream makes every parsing entry point allocate ~1 GB.

One prefix-table entry of 1 MiB is referenced by 3 IRIs in each of 250 tiny triple rows
(~20 bytes per row).  Decoder.decode_iri() materialises ``prefix + name`` as a brand new
string for every reference, so memory (and copying time) grows as
len(prefix) * number_of_references, i.e. quadratically in the number of bytes received.
"""
import os, sys; sys.path.insert(0, os.getcwd())
import pyjelly; assert pyjelly.__file__.startswith(os.getcwd())
import io, time, tracemalloc
from google.protobuf.proto import serialize_length_prefixed
from pyjelly import jelly
from pyjelly.integrations.generic.parse import parse_jelly_to_graph as generic_to_graph
from pyjelly.integrations.rdflib.parse import parse_jelly_to_graph as rdflib_to_graph

PREFIX_LEN = 1 << 20
TRIPLES = 250
NAMES = 16


def build() -> bytes:
    f = jelly.RdfStreamFrame()
    o = f.rows.add().options
    o.physical_type = jelly.PHYSICAL_STREAM_TYPE_TRIPLES
    o.logical_type = jelly.LOGICAL_STREAM_TYPE_FLAT_TRIPLES
    o.max_name_table_size = NAMES
    o.max_prefix_table_size = 8
    o.max_datatype_table_size = 0
    o.version = 1
    p = f.rows.add().prefix
    p.id = 1
    p.value = "http://example.org/" + "a" * PREFIX_LEN
    for i in range(NAMES):
        n = f.rows.add().name
        n.id = i + 1
        n.value = f"n{i}"
    for i in range(TRIPLES):
        t = f.rows.add().triple
        t.s_iri.prefix_id = 1
        t.s_iri.name_id = 1 + (i % NAMES)
        t.p_iri.prefix_id = 1
        t.p_iri.name_id = 1 + ((i // NAMES) % NAMES)
        t.o_iri.prefix_id = 1
        t.o_iri.name_id = 1 + ((i * 7) % NAMES)
    out = io.BytesIO()
    serialize_length_prefixed(f, out)
    return out.getvalue()


data = build()
bad = False
for label, fn in (("generic", generic_to_graph), ("rdflib", rdflib_to_graph)):
    tracemalloc.start()
    t0 = time.perf_counter()
    sink = fn(io.BytesIO(data))
    dt = time.perf_counter() - t0
    _, peak = tracemalloc.get_traced_memory()
    tracemalloc.stop()
    n = len(sink)
    del sink
    ratio = peak / len(data)
    print(f"{label}: input {len(data)} bytes, {n} statements, peak traced memory "
          f"{peak / 2**20:.0f} MiB = {ratio:.0f}x the input, {dt:.2f}s")
    if ratio > 50:
        bad = True

if bad:
    print("VIOLATION (C17): memory grows as len(prefix entry) x number of IRI references "
          "(quadratic in the bytes received), not in proportion to the bytes received: "
          "a 1 MiB input balloons to ~1 GiB; 10 MiB prefix + 10 MiB of rows would need ~5 TB.")
    sys.exit(1)
print("ok: memory stayed proportional to the input")
