"""C01: a grouped stream of triples whose FIRST sink is empty cannot be written:
the empty sink makes the writer choose a QUADS stream, later triples then fail with
an unrelated RuntimeError after an options-only QUADS frame was already written."""
import os, sys; sys.path.insert(0, os.getcwd())
import io
import pyjelly
assert pyjelly.__file__.startswith(os.getcwd()), pyjelly.__file__

from pyjelly.integrations.generic.generic_sink import (
    IRI, GenericStatementSink, Literal, Triple,
)
from pyjelly.integrations.generic.parse import parse_jelly_grouped
from pyjelly.integrations.generic.serialize import grouped_stream_to_file

triples = [
    Triple(IRI("http://a/s"), IRI("http://a/p"), Literal("x")),
    Triple(IRI("http://a/s"), IRI("http://a/p"), Literal("y")),
]
empty = GenericStatementSink()
full = GenericStatementSink()
for t in triples:
    full.add(t)


def run(sinks):
    out = io.BytesIO()
    try:
        grouped_stream_to_file(iter(sinks), out)
    except BaseException as e:  # noqa: BLE001
        return f"writer raised {type(e).__name__}: {e} ({len(out.getvalue())} bytes already written)", None
    back = [s for sink in parse_jelly_grouped(io.BytesIO(out.getvalue())) for s in sink]
    return "written", back


# control: same statements, empty sink not in first position
msg, back = run([full, empty])
print("[full, empty] ->", msg, "| round trip ok" if back == triples else "")
assert back == triples

msg, back = run([empty, full])
print("[empty, full] ->", msg)
if back != triples:
    print(
        "C01 violated: the same sequence of triples is written and read back when the "
        "empty group comes last, but cannot be written when the empty group comes first "
        "(GenericStatementSink.is_triples_sink is False for an empty sink, so guess_stream "
        "fixes the whole stream to QuadStream)."
    )
    sys.exit(1)
sys.exit(0)
