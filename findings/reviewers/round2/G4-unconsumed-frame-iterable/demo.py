"""C04: parse_triples_stream / parse_quads_stream hand out one *lazy* iterable per frame that shares
the decoder state. If the caller does not exhaust one of them (skips a frame, or stops after the first
statement of a frame), the lookup entries and repeated terms of the unread rows are never ingested and
later frames decode to statements the stream does not contain - without any error.
"""
import os, sys
sys.path.insert(0, os.getcwd())
import io
import pyjelly
assert pyjelly.__file__.startswith(os.getcwd()), pyjelly.__file__

import rdflib
from pyjelly import jelly
from pyjelly.serialize.streams import SerializerOptions
from pyjelly.parse.ioutils import get_options_and_frames
from pyjelly.integrations.generic import serialize as gser, generic_sink as gs, parse as gp
from pyjelly.integrations.rdflib import serialize as rser, parse as rp

N = 14
options = lambda: SerializerOptions(logical_type=jelly.LOGICAL_STREAM_TYPE_FLAT_TRIPLES, frame_size=4)

I = gs.IRI
g_triples = [gs.Triple(I(f"http://e/s{i // 5}"), I("http://e/p"), gs.Literal(str(i))) for i in range(N)]
U = rdflib.URIRef
r_triples = [rp.Triple(U(f"http://e/s{i // 5}"), U("http://e/p"), rdflib.Literal(str(i))) for i in range(N)]

bad = 0
for label, ser, par, triples in (("generic", gser, gp, g_triples), ("rdflib", rser, rp, r_triples)):
    out = io.BytesIO()
    ser.flat_stream_to_file((t for t in triples), out, options())   # pyjelly's own writer
    data = out.getvalue()

    # reference: every per-frame iterable consumed in order
    opts, frames = get_options_and_frames(io.BytesIO(data))
    truth = [list(it) for it in par.parse_triples_stream(frames, opts)]

    # same call, but the caller is not interested in frame #2 and does not iterate it
    opts, frames = get_options_and_frames(io.BytesIO(data))
    for idx, it in enumerate(par.parse_triples_stream(frames, opts)):
        if idx == 2:
            continue
        try:
            got = list(it)
        except Exception as e:
            print(f"{label}: frame {idx}: raised {type(e).__name__}: {e}")
            continue
        if got != truth[idx]:
            bad += 1
            for a, b in zip(got, truth[idx]):
                if a != b:
                    print(f"{label}: frame {idx}: returned {tuple(map(str, a))}\n"
                          f"{' ' * len(label)}           stream says {tuple(map(str, b))}")

if bad:
    print("\nVIOLATION: statements that the stream does not contain were delivered as data, no exception.\n"
          "Each per-frame iterable is `decoder.iter_rows(frame)`, a generator that has not run yet when the next\n"
          "frame is handed out; nothing drains or invalidates it.")
sys.exit(1 if bad else 0)
