"""C13: a stream whose header declares protocol version 1 can contain namespace-declaration rows.

Stream.namespace_declaration() does not look at params.namespace_declarations, and the parser does
not look at the declared version when it meets a namespace row.
"""
import os, sys
sys.path.insert(0, os.getcwd())
import io
import pyjelly
assert pyjelly.__file__.startswith(os.getcwd()), pyjelly.__file__

from pyjelly import jelly
from pyjelly.options import StreamParameters
from pyjelly.serialize.streams import SerializerOptions, TripleStream
from pyjelly.serialize.ioutils import write_delimited
from pyjelly.integrations.generic import serialize as gser, generic_sink as gs, parse as gp
from pyjelly.parse.ioutils import get_options_and_frames

options = SerializerOptions(
    logical_type=jelly.LOGICAL_STREAM_TYPE_FLAT_TRIPLES,
    params=StreamParameters(namespace_declarations=False),  # => version 1
)
stream = TripleStream(encoder=gser.GenericSinkTermEncoder(lookup_preset=options.lookup_preset), options=options)
stream.enroll()
writer_refused = False
try:
    stream.namespace_declaration("ex", "http://example.org/")
except Exception as e:
    writer_refused = True
    print(f"writer refused the namespace declaration: {type(e).__name__}: {e}")
I = gs.IRI
frames = list(gser.stream_frames(stream, (t for t in [gs.Triple(I("http://example.org/s"), I("http://example.org/p"), I("http://example.org/o"))])))
out = io.BytesIO()
for f in frames:
    write_delimited(f, out)
data = out.getvalue()

version = frames[0].rows[0].options.version
ns_rows = sum(1 for f in frames for r in f.rows if r.WhichOneof("row") == "namespace")
print(f"written: declared version={version}, namespace rows={ns_rows}")

told, _ = get_options_and_frames(io.BytesIO(data))
reader_refused = False
try:
    items = list(gp.parse_jelly_flat(io.BytesIO(data)))
    print(f"read: told version={told.params.version}, namespace_declarations={told.params.namespace_declarations}; "
          f"items={[type(i).__name__ for i in items]}")
except Exception as e:
    reader_refused = True
    print(f"reader refused: {type(e).__name__}: {e}")

bad = ns_rows > 0 and version < 2
if bad:
    print("\nVIOLATION: the header says protocol version 1 (no namespace declarations) but the stream contains a\n"
          "namespace-declaration row, which only exists from version 2 on;"
          + (" pyjelly's parser also accepts it." if not reader_refused else ""))
sys.exit(1 if bad else 0)
