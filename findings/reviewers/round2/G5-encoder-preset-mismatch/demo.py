"""C06: Stream(encoder=..., options=...) accepts two different lookup presets and writes an undecodable file."""
import os, sys; sys.path.insert(0, os.getcwd())
import io
import pyjelly
assert pyjelly.__file__.startswith(os.getcwd()), pyjelly.__file__

from pyjelly.integrations.generic.generic_sink import IRI, GenericStatementSink, Literal, Triple
from pyjelly.integrations.generic.parse import parse_jelly_flat
from pyjelly.integrations.generic.serialize import GenericSinkTermEncoder, stream_frames
from pyjelly.options import LookupPreset
from pyjelly.serialize.ioutils import write_delimited
from pyjelly.serialize.streams import SerializerOptions, TripleStream

sink = GenericStatementSink()
for i in range(200):  # more distinct names than LookupPreset.small() holds (128)
    sink.add(Triple(IRI(f"http://e/s{i}"), IRI("http://e/p"), Literal("x")))

out = io.BytesIO()
try:
    # the way tests/ and the only available constructor build a generic stream: encoder + options.
    # The options row announces options.lookup_preset, the encoder indexes with its own preset.
    stream = TripleStream(
        encoder=GenericSinkTermEncoder(),  # default preset: 4000 names
        options=SerializerOptions(lookup_preset=LookupPreset.small()),  # announces 128 names
    )
    for frame in stream_frames(stream, sink):
        write_delimited(frame, out)
except Exception as e:  # refusing the inconsistent combination would be fine
    print("ok: refused:", repr(e))
    sys.exit(0)

try:
    back = list(parse_jelly_flat(io.BytesIO(out.getvalue())))
except Exception as e:
    print("C06 VIOLATION: the serializer accepted encoder preset (4000 names) + options preset (128 names),")
    print(f"  wrote {len(out.getvalue())} bytes without complaint, and the file cannot be read back: {e!r}")
    sys.exit(1)
if back != list(sink):
    print("C06 VIOLATION: read back", len(back), "statements, expected", len(sink))
    sys.exit(1)
print("ok")
