"""C13/C16: an options row after the first one is validated by `assert` only.

Under `python -O` a later options row that declares a name table of 100000 entries,
a name table of 4 entries, a forbidden physical/logical pair, another physical type
or a disabled datatype table is accepted silently by both integrations.
"""
import os, sys
sys.path.insert(0, os.getcwd())
import subprocess

CHILD = r'''
import os, sys
sys.path.insert(0, os.getcwd())
import io
import pyjelly
assert_ok = pyjelly.__file__.startswith(os.getcwd())
if not assert_ok:
    print("wrong pyjelly", pyjelly.__file__); sys.exit(3)
from pyjelly import jelly
from pyjelly.integrations.generic import parse as gp
from pyjelly.integrations.rdflib import parse as rp

def options(**kw):
    base = dict(physical_type=jelly.PHYSICAL_STREAM_TYPE_TRIPLES,
                logical_type=jelly.LOGICAL_STREAM_TYPE_FLAT_TRIPLES,
                max_name_table_size=8, max_prefix_table_size=0,
                max_datatype_table_size=4, version=1)
    base.update(kw)
    return jelly.RdfStreamRow(options=jelly.RdfStreamOptions(**base))

def triple(s):
    r = jelly.RdfStreamRow()
    r.triple.s_bnode = s; r.triple.p_bnode = "p"; r.triple.o_bnode = "o"
    return r

def delimited(frame):
    data = frame.SerializeToString()
    return bytes([len(data)]) + data

CASES = {
    "name table of 100000 (> 4096)": dict(max_name_table_size=100000),
    "name table of 4 (< 8)": dict(max_name_table_size=4),
    "forbidden pair TRIPLES/FLAT_QUADS": dict(logical_type=jelly.LOGICAL_STREAM_TYPE_FLAT_QUADS),
    "physical type changed to QUADS": dict(physical_type=jelly.PHYSICAL_STREAM_TYPE_QUADS,
                                           logical_type=jelly.LOGICAL_STREAM_TYPE_FLAT_QUADS),
    "datatype table changed to 0": dict(max_datatype_table_size=0),
}
accepted = []
for name, kw in CASES.items():
    frame = jelly.RdfStreamFrame(rows=[options(), triple("a"), options(**kw), triple("b")])
    data = delimited(frame)
    for label, mod in (("generic", gp), ("rdflib", rp)):
        try:
            n = len(list(mod.parse_jelly_flat(io.BytesIO(data))))
        except Exception as e:
            continue
        accepted.append(f"{label}: later options row with {name} accepted, {n} statements returned")
print("\n".join(accepted))
sys.exit(1 if accepted else 0)
'''

rc = 0
for flags in ([], ["-O"]):
    p = subprocess.run([sys.executable, *flags, "-c", CHILD], capture_output=True, text=True, cwd=os.getcwd())
    mode = "python " + " ".join(flags) if flags else "python"
    if p.returncode == 0:
        print(f"[{mode}] every differing options row was rejected")
    else:
        rc = 1
        print(f"[{mode}] VIOLATION (exit {p.returncode}):")
        print(p.stdout.strip())
        if p.stderr.strip():
            print(p.stderr.strip())
if rc:
    print("\nThe first options row is validated by explicit raises, every later one only by\n"
          "`assert` statements in Decoder.validate_stream_options (pyjelly/parse/decode.py),\n"
          "which `python -O` removes.")
sys.exit(rc)
