"""C10: a delimited stream cut in the middle (connection dropped) must still yield the
statements of every frame that was completely delivered.  When the source is a
non-seekable file object that is not an io.BufferedIOBase instance (urllib's addinfourl
wrapper, urllib3's / requests' response.raw, any delegating wrapper), pyjelly puts an
io.BufferedReader in front of it, asks it for 8 KiB when it needs 1 byte, and the
completely delivered frames are lost together with the broken read."""
import os, sys; sys.path.insert(0, os.getcwd())
import pyjelly
assert pyjelly.__file__.startswith(os.getcwd()), pyjelly.__file__

import http.client
import io
import socket
import urllib.response

from google.protobuf.proto import parse_length_prefixed
from rdflib import Literal, URIRef

from pyjelly import jelly
from pyjelly.integrations.rdflib.parse import parse_jelly_flat
from pyjelly.serialize.streams import SerializerOptions

from pyjelly.integrations.rdflib.serialize import flat_stream_to_file

triples = [
    (URIRef(f"http://example.org/s{i}"), URIRef("http://example.org/p"), Literal(i))
    for i in range(40)
]
out = io.BytesIO()
flat_stream_to_file(
    (t for t in triples),
    out,
    SerializerOptions(frame_size=5, logical_type=jelly.LOGICAL_STREAM_TYPE_FLAT_TRIPLES),
)
stream = out.getvalue()
original = list(parse_jelly_flat(io.BytesIO(stream)))
assert len(original) == 40

# frame boundaries
ends, b = [], io.BytesIO(stream)
while parse_length_prefixed(jelly.RdfStreamFrame, b) is not None:
    ends.append(b.tell())
assert len(ends) > 8

CUT = ends[7] + 5  # 8 complete frames, then 5 bytes of the 9th, then the connection drops
complete = list(parse_jelly_flat(io.BytesIO(stream[: ends[7]])))
assert complete == original[: len(complete)] and len(complete) > 0


def wire() -> bytes:
    """The producer sends each frame as one HTTP chunk, then crashes."""
    out = [b"HTTP/1.1 200 OK\r\nContent-Type: application/x-jelly-rdf\r\n"
           b"Transfer-Encoding: chunked\r\n\r\n"]
    prev = 0
    for e in [*ends[:8], CUT]:
        piece = stream[prev:e]
        prev = e
        out.append(b"%x\r\n" % len(piece) + piece + b"\r\n")
    return b"".join(out)  # no terminating 0-chunk: the connection is simply closed


def http_response() -> http.client.HTTPResponse:
    client, server = socket.socketpair()
    server.sendall(wire())
    server.close()
    response = http.client.HTTPResponse(client)
    response.begin()
    return response


def collect(source):
    got, err = [], None
    try:
        for statement in parse_jelly_flat(source):
            got.append(statement)
    except BaseException as e:  # noqa: BLE001
        err = type(e).__name__
    return got, err


report = []

# control: the HTTPResponse itself (an io.BufferedIOBase, not wrapped by pyjelly)
got, err = collect(http_response())
assert got == complete, (len(got), err)
report.append(f"http.client.HTTPResponse            : {len(got):2d} statements, then {err}")

# the same response behind urllib's standard wrapper class (what urllib hands out for
# ftp:/file:/data: URLs and from URLopener; not an io.BufferedIOBase)
resp = http_response()
wrapped = urllib.response.addinfourl(resp, resp.headers, "http://example.org/data.jelly", 200)
got_wrapped, err_wrapped = collect(wrapped)
report.append(f"urllib.response.addinfourl(response): {len(got_wrapped):2d} statements, then {err_wrapped}")

# optional, informational: requests' response.raw / urllib3 against a loopback server
try:
    import http.server
    import threading

    import requests

    class Handler(http.server.BaseHTTPRequestHandler):
        def log_message(self, *a):
            pass

        def do_GET(self):
            self.wfile.write(wire())
            self.wfile.flush()
            self.close_connection = True

    server = http.server.HTTPServer(("127.0.0.1", 0), Handler)
    threading.Thread(target=server.serve_forever, daemon=True).start()
    raw = requests.get(f"http://127.0.0.1:{server.server_address[1]}/", stream=True, timeout=10).raw
    got_r, err_r = collect(raw)
    report.append(f"requests.get(..., stream=True).raw  : {len(got_r):2d} statements, then {err_r}")
    server.shutdown()
except Exception as e:  # noqa: BLE001
    report.append(f"(requests check skipped: {type(e).__name__}: {e})")

print(f"stream: {len(stream)} bytes, {len(ends)} frames; cut at byte {CUT}: "
      f"8 frames = {len(complete)} statements were delivered completely")
for line in report:
    print("  ", line)
if got_wrapped != complete:
    print("VIOLATION of C10: the statements of completely delivered frames are lost "
          f"({len(got_wrapped)} yielded, {len(complete)} required) when the same truncated "
          "byte sequence arrives through a wrapped source")
    sys.exit(1)
print("ok")
