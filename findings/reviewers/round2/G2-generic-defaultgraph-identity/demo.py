"""C15: default-graph quads that crossed a copy / pickle boundary.

The generic integration recognises the default graph only by object identity with the
module-level DefaultGraph instance. After copy.deepcopy or pickle (multiprocessing,
caches, ...) the quads its own parser returned no longer compare equal to the originals
and its serializer refuses them, while the corresponding rdflib data are written fine.
"""
import os, sys; sys.path.insert(0, os.getcwd())
import copy, io, pickle
import pyjelly
assert pyjelly.__file__.startswith(os.getcwd()), pyjelly.__file__

import rdflib
from rdflib.graph import DATASET_DEFAULT_GRAPH_ID
from pyjelly import jelly
from pyjelly.serialize.streams import SerializerOptions
from pyjelly.integrations.generic import generic_sink as G
from pyjelly.integrations.generic import parse as gp, serialize as gs
from pyjelly.integrations.rdflib import parse as rp, serialize as rs

S, P = "http://e.org/s", "http://e.org/p"


def opts():
    return SerializerOptions(logical_type=jelly.LOGICAL_STREAM_TYPE_FLAT_QUADS)


# a valid QUADS stream with one quad in the default graph
src = io.BytesIO()
gs.flat_stream_to_file(
    iter([G.Quad(G.IRI(S), G.IRI(P), G.Literal("x"), G.DefaultGraph)]), src, opts()
)
data = src.getvalue()

problems = []
for name, clone in (
    ("copy.deepcopy", copy.deepcopy),
    ("pickle round trip", lambda x: pickle.loads(pickle.dumps(x))),
):
    g_quads = list(gp.parse_jelly_flat(io.BytesIO(data)))
    r_quads = [tuple(q) for q in rp.parse_jelly_flat(io.BytesIO(data))]
    g_copy, r_copy = clone(g_quads), clone(r_quads)

    if r_copy != r_quads:
        problems.append(f"{name}: rdflib statements changed")
    if g_copy != g_quads:
        problems.append(f"{name}: generic statements no longer equal to the originals "
                        f"({g_copy[0].g!r} is not DefaultGraph)")

    out_r = io.BytesIO()
    rs.flat_stream_to_file(iter(r_copy), out_r, opts())
    out_g = io.BytesIO()
    try:
        gs.flat_stream_to_file(iter(g_copy), out_g, opts())
    except Exception as e:  # noqa: BLE001
        problems.append(f"{name}: generic serializer: {type(e).__name__}: {e} "
                        f"(rdflib wrote {len(out_r.getvalue())} bytes)")
    else:
        if out_g.getvalue() != out_r.getvalue():
            problems.append(f"{name}: serializers disagree")

if problems:
    print("VIOLATION (C15):")
    for p in problems:
        print(" -", p)
    sys.exit(1)
print("ok")
