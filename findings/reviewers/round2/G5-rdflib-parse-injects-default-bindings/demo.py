"""C14: Graph.parse(format="jelly") renames / adds namespace bindings that rdflib itself would not."""
import os, sys; sys.path.insert(0, os.getcwd())
import io
import pyjelly
assert pyjelly.__file__.startswith(os.getcwd()), pyjelly.__file__

from rdflib import Graph, Literal, URIRef
from pyjelly.integrations.rdflib.serialize import SerializerOptions, StreamParameters

BINDINGS = [("schema", URIRef("http://schema.org/")), ("ex", URIRef("http://example.org/"))]


def source() -> Graph:
    g = Graph(bind_namespaces="none")  # no rdflib default bindings at all
    for prefix, ns in BINDINGS:
        g.bind(prefix, ns)
    g.add((URIRef("http://example.org/s"), URIRef("http://schema.org/name"), Literal("x")))
    return g


src = source()
assert list(src.namespaces()) == BINDINGS

# Baseline: the same round trip through rdflib's own Turtle plugin keeps the bindings as they are,
# so what follows is not "rdflib's own behaviour".
ttl = Graph(bind_namespaces="none")
ttl.parse(data=src.serialize(format="turtle"), format="turtle")
assert sorted(ttl.namespaces()) == sorted(BINDINGS), list(ttl.namespaces())  # (Turtle sorts prefixes)

out = io.BytesIO()
src.serialize(out, format="jelly", options=SerializerOptions(params=StreamParameters(namespace_declarations=True)))

dst = Graph(bind_namespaces="none")
dst.parse(data=out.getvalue(), format="jelly")
got = list(dst.namespaces())

problems = []
if dict(got).get("schema") != URIRef("http://schema.org/"):
    problems.append(
        f"prefix 'schema' was bound on the source to <http://schema.org/> but the reader has "
        f"schema -> {dict(got).get('schema')!r}; the source IRI arrived as prefix "
        f"{[p for p, n in got if n == URIRef('http://schema.org/')]}"
    )
if got != BINDINGS:
    problems.append(f"{len(got)} bindings on the reader instead of the {len(BINDINGS)} bound on the source")

# re-serializing what was read must reproduce the same declarations
out2 = io.BytesIO()
dst.serialize(out2, format="jelly", options=SerializerOptions(params=StreamParameters(namespace_declarations=True)))
from pyjelly.integrations.rdflib.parse import Prefix, parse_jelly_flat

redeclared = [tuple(x) for x in parse_jelly_flat(io.BytesIO(out2.getvalue())) if isinstance(x, Prefix)]
if redeclared != BINDINGS:
    problems.append(f"re-serialization declares {len(redeclared)} namespaces, e.g. {redeclared[:3]}")

if problems:
    print("C14 VIOLATION (rdflib plugin parse into Graph(bind_namespaces='none')):")
    for p in problems:
        print(" -", p)
    sys.exit(1)
print("ok: bindings round-tripped unchanged")
