"""C17: namespace-declaration rows make the rdflib entry points run in time QUADRATIC in the
number of bytes received (140 KB -> ~9 s; 1.1 MB -> ~2.5 min or ~1 h depending on the variant).

Variant A: every RdfNamespaceDeclaration row declares the SAME label "p" for a DIFFERENT IRI.
  pyjelly hands each one to Graph.bind(prefix, iri) (override=True, replace=False); rdflib then
  probes p1, p2, p3, ... from 1 every time, so the k-th declaration costs k store look-ups and
  k URIRef constructions.
Variant B: every row declares a DISTINCT label for a DISTINCT IRI (what an honest writer emits);
  NamespaceManager.bind() -> insert_trie() scans all previously bound namespaces each time.

The generic integration handles the same bytes in milliseconds.
"""
import os, sys; sys.path.insert(0, os.getcwd())
import pyjelly; assert pyjelly.__file__.startswith(os.getcwd())
import io, time, logging
from google.protobuf.proto import serialize_length_prefixed
from pyjelly import jelly
from pyjelly.integrations.generic.parse import parse_jelly_to_graph as generic_to_graph
from pyjelly.integrations.rdflib.parse import parse_jelly_to_graph as rdflib_to_graph

logging.disable(logging.CRITICAL)


def build(n: int, *, same_label: bool) -> bytes:
    f = jelly.RdfStreamFrame()
    o = f.rows.add().options
    o.physical_type = jelly.PHYSICAL_STREAM_TYPE_TRIPLES
    o.logical_type = jelly.LOGICAL_STREAM_TYPE_FLAT_TRIPLES
    o.max_name_table_size = 4096
    o.max_prefix_table_size = 0
    o.max_datatype_table_size = 0
    o.version = 2
    for i in range(n):
        e = f.rows.add().name
        e.id = (i % 4096) + 1
        e.value = f"http://example.org/ns{i}#"
        d = f.rows.add().namespace
        d.name = "p" if same_label else f"p{i}"
        d.value.name_id = (i % 4096) + 1
    out = io.BytesIO()
    serialize_length_prefixed(f, out)
    return out.getvalue()


def cpu(fn, data):
    t0 = time.process_time()
    fn(io.BytesIO(data))
    return time.process_time() - t0


bad = False
for variant, same_label, small, big in (("A (same label)", True, 750, 3000),
                                        ("B (distinct labels)", False, 2500, 10000)):
    res = {}
    for n in (small, big):
        data = build(n, same_label=same_label)
        res[n] = (len(data), cpu(generic_to_graph, data), cpu(rdflib_to_graph, data))
        print(f"variant {variant}: {n} declarations, {res[n][0]} bytes: "
              f"generic {res[n][1]:.3f}s CPU, rdflib {res[n][2]:.2f}s CPU")
    growth = res[big][2] / res[small][2]
    print(f"  4x the input -> {growth:.1f}x the time (linear would be ~4x)")
    if growth > 9 and res[big][2] > 2.0:
        bad = True
        print(f"  VIOLATION (C17): quadratic parse time; {res[big][0]} bytes take {res[big][2]:.1f}s")

if bad:
    sys.exit(1)
print("ok")
