"""C13: logical_type=UNSPECIFIED is written as FLAT_TRIPLES/FLAT_QUADS in a delimited stream but as
UNSPECIFIED in a non-delimited one - the header depends on `delimited`, not on what was asked for.
"""
import os, sys
sys.path.insert(0, os.getcwd())
import io
import pyjelly
assert pyjelly.__file__.startswith(os.getcwd()), pyjelly.__file__

from pyjelly import jelly
from pyjelly.options import StreamParameters
from pyjelly.serialize.streams import SerializerOptions, TripleStream, QuadStream, GraphStream
from pyjelly.serialize.ioutils import write_delimited, write_single
from pyjelly.integrations.generic import serialize as gser, generic_sink as gs, parse as gp
from pyjelly.parse.ioutils import get_options_and_frames
from pyjelly.errors import JellyConformanceError

I = gs.IRI
T = gs.Triple(I("http://e/s"), I("http://e/p"), I("http://e/o"))
Q = gs.Quad(I("http://e/s"), I("http://e/p"), I("http://e/o"), gs.DefaultGraph)
name = jelly.LogicalStreamType.Name

bad = 0
for cls, item in ((TripleStream, T), (QuadStream, Q), (GraphStream, Q)):
    told = {}
    strict = {}
    for delimited in (True, False):
        options = SerializerOptions(
            logical_type=jelly.LOGICAL_STREAM_TYPE_UNSPECIFIED,
            params=StreamParameters(delimited=delimited),
        )
        stream = cls(encoder=gser.GenericSinkTermEncoder(lookup_preset=options.lookup_preset), options=options)
        out = io.BytesIO()
        for frame in gser.stream_frames(stream, (x for x in [item])):
            (write_delimited if delimited else write_single)(frame, out)
        data = out.getvalue()
        o, _ = get_options_and_frames(io.BytesIO(data))
        told[delimited] = o.stream_types.logical_type
        try:
            list(gp.parse_jelly_flat(io.BytesIO(data), logical_type_strict=True))
            strict[delimited] = "accepted"
        except JellyConformanceError:
            strict[delimited] = "rejected"
    # minimal demand: the header must not depend on `delimited` (strictly it should be UNSPECIFIED twice)
    ok = told[True] == told[False]
    bad += not ok
    print(f"{'ok' if ok else 'VIOLATION':9} {cls.__name__}: requested LOGICAL_STREAM_TYPE_UNSPECIFIED; "
          f"delimited header says {name(told[True])} (strict flat parser: {strict[True]}), "
          f"non-delimited header says {name(told[False])} (strict flat parser: {strict[False]})")

if bad:
    print("\nThe same options give two different headers; the delimited one is not the logical type the stream\n"
          "was created with (FrameFlow.__init__: `logical_type or self.__class__.logical_type` treats the\n"
          "enum value 0 as 'not given').")
sys.exit(1 if bad else 0)
