"""C01: a quoted triple nested 98 levels deep is written without complaint,
but the bytes cannot be parsed back (one level less round-trips, one level more
is refused by the writer)."""
import os, sys; sys.path.insert(0, os.getcwd())
import io
import pyjelly
assert pyjelly.__file__.startswith(os.getcwd()), pyjelly.__file__

from pyjelly.errors import JellyConformanceError
from pyjelly.integrations.generic.generic_sink import IRI, Triple
from pyjelly.integrations.generic.parse import parse_jelly_flat
from pyjelly.integrations.generic.serialize import flat_stream_to_file


def nested(levels: int) -> Triple:
    """Quoted triple with `levels` levels of quoting (levels=1: a plain quoted triple)."""
    t = Triple(IRI("http://a/s"), IRI("http://a/p"), IRI("http://a/o"))
    for _ in range(levels - 1):
        t = Triple(IRI("http://a/s"), IRI("http://a/p"), t)
    return t


def attempt(levels: int) -> str:
    statement = Triple(IRI("http://a/s"), IRI("http://a/p"), nested(levels))
    out = io.BytesIO()
    try:
        flat_stream_to_file(iter([statement]), out)
    except JellyConformanceError as e:  # a clean refusal would be acceptable
        return f"writer refused cleanly: {e}"
    except Exception as e:  # noqa: BLE001
        return f"writer raised {type(e).__name__}"
    data = out.getvalue()
    try:
        back = list(parse_jelly_flat(io.BytesIO(data)))
    except Exception as e:  # noqa: BLE001
        return f"VIOLATION: wrote {len(data)} bytes, parser raised {type(e).__name__}: {str(e)[:90]}"
    return "round trip ok" if back == [statement] else "VIOLATION: decoded differently"


bad = False
for levels in (97, 98, 99):
    result = attempt(levels)
    print(f"quoting levels={levels}: {result}")
    bad |= result.startswith("VIOLATION")

if bad:
    print(
        "C01 violated: the generic writer produced a file for a finite statement "
        "(nested quoted triples) that the generic parser cannot read back."
    )
    sys.exit(1)
sys.exit(0)
