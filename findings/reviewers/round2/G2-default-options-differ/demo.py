"""C15: with the options argument left out on both sides, the two integrations write
different streams for corresponding data (different defaults in guess_options)."""
import os, sys; sys.path.insert(0, os.getcwd())
import io
import pyjelly
assert pyjelly.__file__.startswith(os.getcwd()), pyjelly.__file__

import rdflib
from pyjelly import jelly
from pyjelly.integrations.generic import generic_sink as G
from pyjelly.integrations.generic import serialize as gs
from pyjelly.integrations.rdflib import serialize as rs

S, P = "http://e.org/s", "http://e.org/p"
r_triple = (rdflib.URIRef(S), rdflib.URIRef(P), rdflib.Literal("x"))
g_triple = G.Triple(G.IRI(S), G.IRI(P), G.Literal("x"))

problems = []


def first_options(data: bytes) -> jelly.RdfStreamOptions:
    f = jelly.RdfStreamFrame(); f.ParseFromString(data[1:]); return f.rows[0].options


def compare(label, r_bytes, g_bytes):
    if r_bytes != g_bytes:
        ro, go = first_options(r_bytes), first_options(g_bytes)
        problems.append(
            f"{label}: bytes differ; rdflib options generalized_statements="
            f"{ro.generalized_statements} rdf_star={ro.rdf_star}, generic options "
            f"generalized_statements={go.generalized_statements} rdf_star={go.rdf_star}"
        )


# flat_stream_to_file(statements, out) - options omitted
o_r, o_g = io.BytesIO(), io.BytesIO()
rs.flat_stream_to_file(iter([r_triple]), o_r)
gs.flat_stream_to_file(iter([g_triple]), o_g)
compare("flat_stream_to_file", o_r.getvalue(), o_g.getvalue())

# Graph.serialize(format="jelly") vs GenericStatementSink.serialize()
graph = rdflib.Graph(); graph.add(r_triple)
sink = G.GenericStatementSink(); sink.add(g_triple)
o_r, o_g = io.BytesIO(), io.BytesIO()
graph.serialize(o_r, format="jelly")
sink.serialize(o_g)
compare("Graph.serialize / GenericStatementSink.serialize", o_r.getvalue(), o_g.getvalue())

# grouped_stream_to_file(sinks, out) - options omitted
o_r, o_g = io.BytesIO(), io.BytesIO()
rs.grouped_stream_to_file(iter([graph]), o_r)
gs.grouped_stream_to_file(iter([sink]), o_g)
compare("grouped_stream_to_file", o_r.getvalue(), o_g.getvalue())

if problems:
    print("VIOLATION (C15, serializers not byte-identical with default options):")
    for p in problems:
        print(" -", p)
    sys.exit(1)
print("ok")
