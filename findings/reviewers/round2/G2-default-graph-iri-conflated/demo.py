"""C15: a named graph <urn:x-rdflib:default> and the default graph become the same
term in every rdflib parsing entry point, while the generic integration keeps them
apart; re-serialising what each integration parsed (same options) gives different streams.
"""
import os, sys; sys.path.insert(0, os.getcwd())
import io
import pyjelly
assert pyjelly.__file__.startswith(os.getcwd()), pyjelly.__file__

from pyjelly import jelly
from pyjelly.serialize.streams import SerializerOptions
from pyjelly.integrations.generic import parse as gp, serialize as gs
from pyjelly.integrations.rdflib import parse as rp, serialize as rs
from google.protobuf.proto import serialize_length_prefixed


def build_stream() -> bytes:
    """A valid RDF 1.1 QUADS stream, written by hand as any other encoder would."""
    R = jelly.RdfStreamRow
    rows = [
        R(options=jelly.RdfStreamOptions(
            physical_type=jelly.PHYSICAL_STREAM_TYPE_QUADS,
            logical_type=jelly.LOGICAL_STREAM_TYPE_FLAT_QUADS,
            max_name_table_size=16, max_prefix_table_size=8,
            max_datatype_table_size=8, version=1)),
        R(prefix=jelly.RdfPrefixEntry(id=1, value="http://e.org/")),
        R(prefix=jelly.RdfPrefixEntry(id=2, value="")),
        R(name=jelly.RdfNameEntry(id=1, value="s")),
        R(name=jelly.RdfNameEntry(id=2, value="p")),
        R(name=jelly.RdfNameEntry(id=3, value="urn:x-rdflib:default")),
    ]
    q1 = jelly.RdfQuad()
    q1.s_iri.prefix_id = 1; q1.s_iri.name_id = 1
    q1.p_iri.prefix_id = 1; q1.p_iri.name_id = 2
    q1.o_literal.lex = "in the NAMED graph"
    q1.g_iri.prefix_id = 2; q1.g_iri.name_id = 3      # named graph <urn:x-rdflib:default>
    q2 = jelly.RdfQuad()
    q2.o_literal.lex = "in the DEFAULT graph"          # s, p repeated
    q2.g_default_graph.SetInParent()                   # the default graph
    rows += [R(quad=q1), R(quad=q2)]
    out = io.BytesIO()
    serialize_length_prefixed(jelly.RdfStreamFrame(rows=rows), out)
    return out.getvalue()


data = build_stream()
problems = []

g_flat = [x for x in gp.parse_jelly_flat(io.BytesIO(data))]
r_flat = [x for x in rp.parse_jelly_flat(io.BytesIO(data))]
print("generic flat graph terms:", [repr(q.g) for q in g_flat])
print("rdflib  flat graph terms:", [repr(q.g) for q in r_flat])

generic_distinct = g_flat[0].g != g_flat[1].g
rdflib_distinct = r_flat[0].g != r_flat[1].g
if generic_distinct != rdflib_distinct:
    problems.append(
        "graph names do not correspond: generic keeps the named graph and the default "
        "graph apart, rdflib returns the same term for both"
    )

# re-serialise what each integration parsed, same explicit options
def opts():
    return SerializerOptions(logical_type=jelly.LOGICAL_STREAM_TYPE_FLAT_QUADS)

o_g, o_r = io.BytesIO(), io.BytesIO()
gs.flat_stream_to_file(iter(g_flat), o_g, opts())
rs.flat_stream_to_file(iter(r_flat), o_r, opts())
if o_g.getvalue() != o_r.getvalue():
    problems.append("re-serialising the parsed statements gives different bytes")
again = [x for x in gp.parse_jelly_flat(io.BytesIO(o_r.getvalue()))]
print("after rdflib parse -> rdflib serialize, generic reads graph terms:",
      [repr(q.g) for q in again])
if [q.g for q in again] != [q.g for q in g_flat]:
    problems.append(
        "rdflib parse + rdflib serialize moved the quad of the named graph "
        "<urn:x-rdflib:default> into the default graph"
    )

if problems:
    print("VIOLATION (C15):")
    for p in problems:
        print(" -", p)
    sys.exit(1)
print("ok")
