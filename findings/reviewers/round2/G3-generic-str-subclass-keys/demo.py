"""C19 (generic integration): strings that are instances of a str subclass with its own
__eq__/__hash__ (rdflib's URIRef, e.g. the XSD.integer constant) are used as lookup keys as they
are.  The same text arriving once as URIRef and once as plain str (which is what pyjelly's own
generic parser produces) is entered into the table twice, and equal terms are not elided."""
import os, sys; sys.path.insert(0, os.getcwd())
import io
import pyjelly
assert pyjelly.__file__.startswith(os.getcwd()), pyjelly.__file__

from rdflib import XSD, URIRef          # XSD.integer is a URIRef, i.e. a str
from pyjelly import jelly
from pyjelly.options import LookupPreset
from pyjelly.serialize.ioutils import write_delimited
from pyjelly.serialize.streams import SerializerOptions
from pyjelly.integrations.generic.generic_sink import IRI, Literal, Triple
from pyjelly.integrations.generic.serialize import flat_stream_to_frames

XSD_INT = "http://www.w3.org/2001/XMLSchema#integer"
assert isinstance(XSD.integer, str) and str(XSD.integer) == XSD_INT

statements = [
    # literal built with the rdflib vocabulary constant, IRI taken over from an rdflib graph
    Triple(IRI("http://e/s"), IRI(URIRef("label")), Literal("1", datatype=XSD.integer)),
    # the same datatype / the same predicate as plain str (as parse_jelly_flat() would deliver them)
    Triple(IRI("http://e/s"), IRI("label"), Literal("2", datatype=XSD_INT)),
]
options = SerializerOptions(
    logical_type=jelly.LOGICAL_STREAM_TYPE_FLAT_TRIPLES,
    lookup_preset=LookupPreset(),           # 4000/150/32: large enough for everything
)
out = io.BytesIO()
for frame in flat_stream_to_frames((s for s in statements), options):
    write_delimited(frame, out)
data = out.getvalue()

def frames(buf):
    pos = 0
    while pos < len(buf):
        n = shift = 0
        while True:
            b = buf[pos]; pos += 1
            n |= (b & 0x7F) << shift; shift += 7
            if not b & 0x80:
                break
        yield jelly.RdfStreamFrame.FromString(buf[pos:pos + n]); pos += n

sent = {"name": [], "prefix": [], "datatype": []}
triples = []
for frame in frames(data):
    for row in frame.rows:
        kind = row.WhichOneof("row")
        if kind in sent:
            sent[kind].append(getattr(row, kind).value)
        elif kind == "triple":
            triples.append(row.triple)

problems = []
for kind, values in sent.items():
    for v in sorted(set(values)):
        if values.count(v) > 1:
            problems.append(f"{kind} entry {v!r} transmitted {values.count(v)} times although the table never evicted it")
if triples[1].WhichOneof("predicate") is not None:
    problems.append("predicate of statement 2 equals the predicate of statement 1 (same IRI 'label') but was sent again")

if problems:
    print("C19 VIOLATED (generic integration, str-subclass strings as lookup keys):")
    for p in problems:
        print("  -", p)
    sys.exit(1)
print("ok: every string sent once, repeated predicate elided")
