"""C13: the table sizes in the header come from SerializerOptions.lookup_preset, the ids actually
used come from the encoder's own preset; nothing checks that the two agree.

TripleStream(encoder=GenericSinkTermEncoder(), options=SerializerOptions(lookup_preset=small))
declares 128/32/32 and then emits name entry 129, 130, ... (encoder default 4000/150/32).
"""
import os, sys
sys.path.insert(0, os.getcwd())
import io
import pyjelly
assert pyjelly.__file__.startswith(os.getcwd()), pyjelly.__file__

from pyjelly import jelly
from pyjelly.options import LookupPreset
from pyjelly.serialize.streams import SerializerOptions, TripleStream
from pyjelly.serialize.ioutils import write_delimited
from pyjelly.integrations.generic import serialize as gser, generic_sink as gs, parse as gp
from pyjelly.integrations.rdflib.serialize import RDFLibTermEncoder
import pyjelly.integrations.rdflib.serialize as rser
import rdflib

I = gs.IRI
N = 200
triples = [gs.Triple(I(f"http://e/s{i}"), I("http://e/p"), I("http://e/o")) for i in range(N)]
rtriples = [(rdflib.URIRef(f"http://e/s{i}"), rdflib.URIRef("http://e/p"), rdflib.URIRef("http://e/o")) for i in range(N)]

failures = []
for label in ("generic", "rdflib"):
    options = SerializerOptions(
        logical_type=jelly.LOGICAL_STREAM_TYPE_FLAT_TRIPLES,
        lookup_preset=LookupPreset.small(),  # 128 names, 32 prefixes, 32 datatypes
    )
    try:
        if label == "generic":
            # the generic integration has no Stream.for_generic(): this is how its tests build streams
            stream = TripleStream(encoder=gser.GenericSinkTermEncoder(), options=options)
            frames = list(gser.stream_frames(stream, (t for t in triples)))
        else:
            stream = TripleStream(encoder=RDFLibTermEncoder(), options=options)
            frames = list(rser.stream_frames(stream, (t for t in rtriples)))
    except Exception as e:  # a refusal is what the property asks for
        print(f"{label}: refused ({type(e).__name__}: {e})")
        continue
    declared = frames[0].rows[0].options.max_name_table_size
    last = 0
    biggest = 0
    for frame in frames:
        for row in frame.rows:
            if row.WhichOneof("row") == "name":
                last = row.name.id or last + 1
                biggest = max(biggest, last)
    out = io.BytesIO()
    for frame in frames:
        write_delimited(frame, out)
    try:
        n = len(list(gp.parse_jelly_flat(io.BytesIO(out.getvalue()))))
        readback = f"pyjelly reads {n} statements"
    except Exception as e:
        readback = f"pyjelly's own parser rejects the stream: {type(e).__name__}: {e}"
    print(f"{label}: header declares max_name_table_size={declared}, biggest name entry id written={biggest}; {readback}")
    if biggest > declared:
        failures.append(label)

if failures:
    print("\nVIOLATION: the stream was written with a 4000-entry name table but the reader is told 128;\n"
          "the stream is invalid for every consumer. Stream.__init__ accepts an encoder whose\n"
          "lookup_preset differs from options.lookup_preset.")
sys.exit(1 if failures else 0)
