"""C06: ConjunctiveGraph.serialize(format="jelly") silently drops graph names and merges duplicate triples."""
import os, sys; sys.path.insert(0, os.getcwd())
import io, warnings
import pyjelly
assert pyjelly.__file__.startswith(os.getcwd()), pyjelly.__file__
warnings.simplefilter("ignore")  # ConjunctiveGraph is deprecated (but still shipped and used) in rdflib 7

from rdflib import ConjunctiveGraph, Dataset, Literal, URIRef
from pyjelly.integrations.rdflib.parse import Prefix, parse_jelly_flat

s, p = URIRef("http://e/s"), URIRef("http://e/p")
g1, g2 = URIRef("http://e/g1"), URIRef("http://e/g2")
quads = {(s, p, Literal("x"), g1), (s, p, Literal("x"), g2), (s, p, Literal("y"), g2)}

cg = ConjunctiveGraph()
for q in quads:
    cg.add(q)
assert {(a, b, c, g.identifier) for a, b, c, g in cg.quads()} == quads

# rdflib's own quad serializers keep all three statements for this store:
assert len([l for l in cg.serialize(format="nquads").splitlines() if l.strip()]) == 3

out = io.BytesIO()
try:
    cg.serialize(out, format="jelly")
except Exception as e:  # refusing would be fine for C06
    print("ok: serializer refused:", repr(e))
    sys.exit(0)

back = [tuple(x) for x in parse_jelly_flat(io.BytesIO(out.getvalue())) if not isinstance(x, Prefix)]
if set(back) != quads:
    print("C06 VIOLATION: ConjunctiveGraph with 3 quads was accepted without error but the file holds")
    print(f"  {len(back)} statement(s) of arity {sorted({len(b) for b in back})}: graph names are gone and the")
    print("  triple present in two graphs was written once:")
    for b in back:
        print("   ", b)
    # the same data through a Dataset works, and a Jelly quad file parses INTO a ConjunctiveGraph fine:
    ds = Dataset()
    for a, b, c, g in quads:
        ds.add((a, b, c, ds.get_context(g)))
    o2 = io.BytesIO(); ds.serialize(o2, format="jelly")
    cg2 = ConjunctiveGraph(); cg2.parse(data=o2.getvalue(), format="jelly")
    print("  (reading the Dataset's file into a ConjunctiveGraph gives", len(list(cg2.quads())), "quads)")
    sys.exit(1)
print("ok: all quads present")
