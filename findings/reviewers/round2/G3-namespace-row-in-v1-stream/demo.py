"""C03: Stream.namespace_declaration() writes a namespace row into a stream whose
options row says version=1 (namespace rows exist only from protocol version 2)."""
import os, sys; sys.path.insert(0, os.getcwd())
import io
import pyjelly
assert pyjelly.__file__.startswith(os.getcwd()), pyjelly.__file__

import rdflib
from pyjelly import jelly
from pyjelly.serialize.streams import SerializerOptions, TripleStream
from pyjelly.options import StreamParameters

g = rdflib.Graph()
g.add((rdflib.URIRef("http://e/s"), rdflib.URIRef("http://e/p"), rdflib.Literal("o")))

status = 0
for label, make in (
    ("rdflib", lambda o: TripleStream.for_rdflib(o)),
    ("generic", lambda o: TripleStream(
        encoder=__import__("pyjelly.integrations.generic.serialize", fromlist=["x"]).GenericSinkTermEncoder(),
        options=o)),
):
    # default parameters: namespace_declarations=False  ->  StreamParameters forces version=1
    options = SerializerOptions(params=StreamParameters())
    stream = make(options)
    stream.enroll()
    stream.namespace_declaration("ex", "http://e/")      # public method, no guard
    frame = stream.flow.to_stream_frame()
    raw = frame.SerializeToString()

    parsed = jelly.RdfStreamFrame.FromString(raw)
    version = parsed.rows[0].options.version
    ns_rows = [r for r in parsed.rows if r.WhichOneof("row") == "namespace"]
    if ns_rows and version < 2:
        print(f"C03 VIOLATED ({label}): options row declares version={version} "
              f"but the stream carries {len(ns_rows)} namespace row(s): "
              f"name={ns_rows[0].namespace.name!r}")
        status = 1
    else:
        print(f"ok ({label}): version={version}, namespace rows={len(ns_rows)}")

# Same thing through the rdflib plugin: the stream passed with stream= was prepared by the
# caller with a namespace declaration; serialize() happily writes a version-1 file with it.
stream = TripleStream.for_rdflib(SerializerOptions())
stream.enroll()
stream.namespace_declaration("ex", "http://e/")
out = io.BytesIO()
g.serialize(out, format="jelly", stream=stream)
data = out.getvalue()
# delimited: skip the varint length (single byte here is not guaranteed -> decode it)
pos = n = shift = 0
while True:
    b = data[pos]; pos += 1
    n |= (b & 0x7F) << shift; shift += 7
    if not b & 0x80:
        break
first = jelly.RdfStreamFrame.FromString(data[pos:pos + n])
kinds = [r.WhichOneof("row") for r in first.rows]
if "namespace" in kinds and first.rows[0].options.version < 2:
    print("C03 VIOLATED (rdflib plugin, stream=): file with version=1 contains rows", kinds)
    status = 1
sys.exit(status)
