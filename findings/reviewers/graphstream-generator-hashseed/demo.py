"""C12: bytes written for one fixed quad sequence + options through
GraphStream.for_rdflib depend on PYTHONHASHSEED."""
import os, sys; sys.path.insert(0, os.getcwd())
import pyjelly
assert pyjelly.__file__.startswith(os.getcwd()), pyjelly.__file__

import hashlib
import io
import subprocess

CHILD = r"""
import os, sys; sys.path.insert(0, os.getcwd())
import pyjelly; assert pyjelly.__file__.startswith(os.getcwd())
import hashlib, io
from rdflib import Literal, URIRef
from pyjelly import jelly
from pyjelly.integrations.rdflib.parse import Quad, parse_jelly_flat
from pyjelly.integrations.rdflib.serialize import stream_frames
from pyjelly.serialize.ioutils import write_delimited
from pyjelly.serialize.streams import GraphStream, SerializerOptions

def quads():
    for i in range(16):
        yield Quad(URIRef(f"http://e/s{i}"), URIRef("http://e/p"), Literal(i),
                   URIRef(f"http://e/graph{i % 8}"))

opts = SerializerOptions(frame_size=5, logical_type=jelly.LOGICAL_STREAM_TYPE_FLAT_QUADS)
out = io.BytesIO()
for frame in stream_frames(GraphStream.for_rdflib(opts), quads()):
    write_delimited(frame, out)
order = []
for q in parse_jelly_flat(io.BytesIO(out.getvalue())):
    if str(q.g) not in order:
        order.append(str(q.g))
print(hashlib.sha256(out.getvalue()).hexdigest()[:16], " ".join(g[-1] for g in order))
"""

results = {}
for seed in ("0", "1", "2", "3", "4"):
    env = dict(os.environ, PYTHONHASHSEED=seed)
    r = subprocess.run(
        [sys.executable, "-c", CHILD], env=env, capture_output=True, text=True, check=True
    )
    results[seed] = r.stdout.strip()
    print(f"PYTHONHASHSEED={seed}: sha256={results[seed]}")

digests = {v.split()[0] for v in results.values()}
if len(digests) > 1:
    print(
        f"C12 VIOLATED: {len(digests)} different byte strings for the same quad sequence "
        "and options (last column: order in which the graphs were written)"
    )
    sys.exit(1)
print("ok: identical bytes for every hash seed")
