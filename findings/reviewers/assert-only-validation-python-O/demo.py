"""C16: the only check for an unsupported protocol version (and for an options row that
changes mid-stream) is a bare `assert`, so under `python -O` / PYTHONOPTIMIZE=1 a
version-3 (or version-1000) stream is decoded and delivered as data instead of rejected."""
import os, sys; sys.path.insert(0, os.getcwd())
import subprocess
import pyjelly
assert pyjelly.__file__.startswith(os.getcwd()), pyjelly.__file__

CHILD = r'''
import os, sys; sys.path.insert(0, os.getcwd())
import io
import pyjelly
if not pyjelly.__file__.startswith(os.getcwd()): sys.exit(99)
from google.protobuf.proto import serialize_length_prefixed
from pyjelly import jelly as J
from pyjelly.integrations.generic.parse import parse_jelly_flat as generic_flat
from pyjelly.integrations.rdflib.parse import parse_jelly_flat as rdflib_flat
import rdflib

def opts(version, names=8):
    return J.RdfStreamRow(options=J.RdfStreamOptions(
        physical_type=J.PHYSICAL_STREAM_TYPE_TRIPLES, max_name_table_size=names,
        max_prefix_table_size=8, max_datatype_table_size=8, version=version))
body = [
    J.RdfStreamRow(prefix=J.RdfPrefixEntry(id=0, value="http://ex/")),
    J.RdfStreamRow(name=J.RdfNameEntry(id=0, value="a")),
    J.RdfStreamRow(name=J.RdfNameEntry(id=0, value="b")),
    J.RdfStreamRow(name=J.RdfNameEntry(id=0, value="c")),
    J.RdfStreamRow(triple=J.RdfTriple(s_iri=J.RdfIri(prefix_id=1, name_id=0),
        p_iri=J.RdfIri(prefix_id=0, name_id=0), o_iri=J.RdfIri(prefix_id=0, name_id=0))),
]
def stream(*frames):
    out = io.BytesIO()
    for rows in frames:
        serialize_length_prefixed(J.RdfStreamFrame(rows=rows), out)
    return out.getvalue()

cases = {
    "version=3": stream([opts(3)] + body),
    "version=1000": stream([opts(1000)] + body),
    "version=3, non-delimited": J.RdfStreamFrame(rows=[opts(3)] + body).SerializeToString(),
}
accepted = 0
for label, data in cases.items():
    for name, fn in (("generic.parse_jelly_flat", lambda d: list(generic_flat(io.BytesIO(d)))),
                     ("rdflib.parse_jelly_flat", lambda d: list(rdflib_flat(io.BytesIO(d)))),
                     ("rdflib Graph.parse", lambda d: list(rdflib.Graph().parse(data=d, format="jelly")))):
        try:
            got = fn(data)
            print(f"  {label:26s} {name:26s} ACCEPTED -> {len(got)} statement(s) delivered")
            accepted += 1
        except BaseException as e:
            print(f"  {label:26s} {name:26s} rejected ({type(e).__name__})")
sys.exit(1 if accepted else 0)
'''

rc = {}
for flag in ((), ("-O",)):
    print(f"--- {sys.executable} {' '.join(flag)} (asserts {'OFF' if flag else 'on'})")
    p = subprocess.run([sys.executable, *flag, "-c", CHILD], cwd=os.getcwd(),
                       capture_output=True, text=True)
    print(p.stdout, end="")
    if p.returncode not in (0, 1):
        print(p.stderr); sys.exit(2)
    rc[flag] = p.returncode

if rc[("-O",)]:
    print("\nVIOLATION (C16): with assertions disabled (python -O / PYTHONOPTIMIZE) a stream "
          "declaring an unsupported protocol version is parsed and its rows are delivered as "
          "data; the version check in Decoder.validate_stream_options is only an `assert`.")
    sys.exit(1)
print("no violation")
