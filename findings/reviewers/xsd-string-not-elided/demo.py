"""C19: a term equal to the previous one is re-sent when one spelling is plain and the other xsd:string."""
import os, sys; sys.path.insert(0, os.getcwd())
import pyjelly
assert pyjelly.__file__.startswith(os.getcwd()), pyjelly.__file__

from pyjelly import jelly
from pyjelly.integrations.generic.generic_sink import IRI, Literal, Quad, Triple
from pyjelly.integrations.generic.serialize import GenericSinkTermEncoder, stream_frames
from pyjelly.options import LookupPreset, StreamParameters
from pyjelly.serialize.streams import GraphStream, SerializerOptions, TripleStream

XSD_STRING = "http://www.w3.org/2001/XMLSchema#string"
problems = []

# 1. object slot of a TRIPLES stream
s, p = IRI("http://example.org/s"), IRI("http://example.org/p")
triples = [
    Triple(s, p, Literal("hello")),
    Triple(s, p, Literal("hello", datatype=XSD_STRING)),  # the same RDF term
    Triple(s, p, Literal("hello")),
]
opts = SerializerOptions(
    logical_type=jelly.LOGICAL_STREAM_TYPE_FLAT_TRIPLES,
    params=StreamParameters(generalized_statements=True, rdf_star=True),
)
stream = TripleStream(encoder=GenericSinkTermEncoder(lookup_preset=opts.lookup_preset), options=opts)
rows = [r for f in stream_frames(stream, (t for t in triples)) for r in f.rows]
triple_rows = [r.triple for r in rows if r.WhichOneof("row") == "triple"]
resent = [i for i, t in enumerate(triple_rows[1:], 1) if t.WhichOneof("object") is not None]
if resent:
    problems.append(
        f"TRIPLES: object re-sent in triple rows {resent} although it is the same literal "
        f'("hello" == "hello"^^xsd:string) as in the previous statement'
    )

# 2. graph name in a GRAPHS stream: one run of equal graph names must use one graph start
g_plain, g_typed = Literal("g"), Literal("g", datatype=XSD_STRING)
quads = [Quad(s, p, Literal("1"), g_plain), Quad(s, p, Literal("2"), g_typed)]
opts = SerializerOptions(
    logical_type=jelly.LOGICAL_STREAM_TYPE_FLAT_QUADS,
    params=StreamParameters(generalized_statements=True, rdf_star=True),
)
stream = GraphStream(encoder=GenericSinkTermEncoder(lookup_preset=opts.lookup_preset), options=opts)
rows = [r for f in stream_frames(stream, (q for q in quads)) for r in f.rows]
starts = sum(1 for r in rows if r.WhichOneof("row") == "graph_start")
if starts != 1:
    problems.append(f"GRAPHS: {starts} graph starts for two consecutive quads with the same graph name")

# 3. rdflib integration, same thing
import rdflib
from rdflib.namespace import XSD
from pyjelly.integrations.rdflib.serialize import flat_stream_to_frames

rs, rp = rdflib.URIRef("http://example.org/s"), rdflib.URIRef("http://example.org/p")
gen = (t for t in [(rs, rp, rdflib.Literal("hello")), (rs, rp, rdflib.Literal("hello", datatype=XSD.string))])
rows = [r for f in flat_stream_to_frames(gen) for r in f.rows]
triple_rows = [r.triple for r in rows if r.WhichOneof("row") == "triple"]
if triple_rows[1].WhichOneof("object") is not None:
    problems.append("rdflib: object re-sent although equal (plain vs xsd:string) to the previous object")

if problems:
    print("C19 VIOLATED:")
    for m in problems:
        print(" -", m)
    sys.exit(1)
print("ok: equal terms were elided")
