"""C01: the empty statement sequence does not round-trip through flat_stream_to_file."""
import os, sys; sys.path.insert(0, os.getcwd())
import io
import pyjelly
assert pyjelly.__file__.startswith(os.getcwd()), pyjelly.__file__

from pyjelly import jelly
from pyjelly.integrations.generic.generic_sink import GenericStatementSink
from pyjelly.integrations.generic.parse import parse_jelly_flat
from pyjelly.integrations.generic.serialize import flat_stream_to_file
from pyjelly.serialize.streams import SerializerOptions

failures = []
for name, lt in (("TRIPLES", jelly.LOGICAL_STREAM_TYPE_FLAT_TRIPLES), ("QUADS", jelly.LOGICAL_STREAM_TYPE_FLAT_QUADS)):
    out = io.BytesIO()
    flat_stream_to_file((s for s in []), out, options=SerializerOptions(logical_type=lt))
    data = out.getvalue()
    try:
        back = list(parse_jelly_flat(io.BytesIO(data)))
    except Exception as exc:  # noqa: BLE001
        failures.append(f"{name}: wrote {len(data)} bytes (no options row); reading them back raises "
                        f"{type(exc).__name__}: {exc}")
        continue
    if back != []:
        failures.append(f"{name}: decoded {back!r}")

# control: the sink API writes a proper (options-only) stream for the same empty input
out = io.BytesIO()
GenericStatementSink().serialize(out)
assert list(parse_jelly_flat(io.BytesIO(out.getvalue()))) == []
print(f"control: GenericStatementSink().serialize() wrote {len(out.getvalue())} bytes and round-trips")

if failures:
    print("C01 VIOLATED for the empty sequence:")
    for f in failures:
        print(" -", f)
    sys.exit(1)
print("ok")
