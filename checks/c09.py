"""C09 - parsing is independent of how the byte source chunks its reads."""
from __future__ import annotations

import copy
import io

from checks import c01, c04
from simkit import nodes, refdec
from simkit import terms as T
from simkit.kernel import Deadlock
from simkit.pipe import FRONTENDS, open_frontend

ID = "C09"
LEVEL = "exploration"
TECHNIQUE = ('deterministic simulation with short_read faults: tape-decided raw read sizes on seven simulated source front ends; oracle = result from io.BytesIO')
LEVEL_NOTE = ('seeded search over read schedules; blocking sources only')
OPTIMIZED_EVERY = 25      # every 25th run is executed in a child interpreter started with python -O
PBPY_EVERY = 50           # every 50th run (offset 6) is executed with protobuf's pure-Python backend
COMPILED_EVERY = 25       # every 25th run (offset 12) is executed in a child that imports a mypyc build of the tree
RUNS = {"quick": 60000, "thorough": 1500000}
RULE = ("valid byte strings (real writer and reference encoder; delimited and not; leading empty frames) "
        "delivered through every channel front end under tape-chosen read sizes to every parse entry point; "
        "oracle = result from io.BytesIO; non-trivial = >=1 short read happened and >=2 items; distinct = distinct "
        "(stream bytes, front end, read-size sequence) triples")
COMPONENTS = {"real": ["pyjelly parse.ioutils (framing detection, frame iterator)", "all six parse entry points",
                       "protobuf parse_length_prefixed", "io.BufferedReader", "gzip.GzipFile"],
              "stub": ["raw byte source (simkit.pipe.RawDribble / SeekableRaw): read sizes decided by the tape",
                       "writer in half of the runs: simkit.refenc"]}
ASSUMPTIONS = ["blocking binary sources only (readinto never returns None)",
               "seekable sources are buffered (documented input contract)"]
PROBES = ["preamble_runs", "gzip_multi_member", "first_read_lt3", "first_read_1", "frontend_raw", "frontend_buffered", "frontend_gzip", "frontend_duck",
          "frontend_rwpair", "frontend_autoclose", "frontend_greedy", "frontend_strict", "frontend_gzip_pipe",
          "frontend_seekable_buffered", "frontend_nonblocking", "nondelimited", "leading_empty_frames", "short_reads_ge10"]
SHRINK_LISTS = ["ops", "items"]


def generate(rng, run, tier):
    if rng.random() < 0.5:
        plan = c01.gen_plan(rng, run, tier)
        plan["source"] = "real"
        plan["integration"] = "generic"
        if plan["cfg"]["entry"] in ("flat_frames",):
            plan["cfg"]["entry"] = "frames_gen"
    else:
        integration = rng.choice(["generic", "generic", "rdflib"])
        plan = c04.gen_stream_plan(rng, integration == "rdflib")
        plan["source"] = "model"
        plan["integration"] = integration
        plan["knobs"]["leading_empty"] = rng.random() < 0.5
    plan["consumer"] = rng.choice(["flat", "flat", "grouped", "to_graph", "plugin"])
    plan["frontend"] = rng.choice(["raw", "raw", "buffered", "buffered", "seekable_buffered", "seekable_buffered", "gzip",
                                   "duck", "rwpair", "bytesio", "autoclose", "greedy", "strict", "gzip_pipe", "nonblocking"])
    plan["policy"] = rng.choice(["tape", "tape", "tape", "one"])
    plan["bufsize"] = rng.choice([None, None, 1, 2, 3, 4, 16, 8192])
    # the caller may have consumed a preamble from a seekable file before handing it over; the payload then
    # starts anywhere relative to the reader's buffer boundary (8190..8193 straddle the default 8 KiB buffer)
    plan["preamble"] = rng.choice([0, 0, 0, 1, 2, 5, 8190, 8191, 8192, 8193])
    plan["members"] = rng.choice([None, None, [1], [2], [3], [2, 5], [1, 2, 3]])
    return plan


def simplify(plan):
    for key, val in (("consumer", "flat"), ("policy", "one"), ("bufsize", None)):
        if plan.get(key) != val:
            p = copy.deepcopy(plan)
            p[key] = val
            yield p


def build(plan, sim):
    if plan["source"] == "real":
        cfg = plan["cfg"]
        data = nodes.serialize_input(cfg, plan["ops"], None)
        return data, nodes.wrote_delimited(cfg), nodes.PHYS[cfg["physical"]]
    data, frames, stats, r = c04.build_stream(plan, sim)
    if frames and not frames[0].rows:
        sim.count("leading_empty_frames")
    return data, plan["delimited"], plan["opts"]["physical_type"]


def consume(plan, fobj, physical):
    """Returns a comparable outcome: ('ok', result) or ('exc', type name)."""
    try:
        res = c04.run_consumer(plan["integration"], plan["consumer"], fobj, physical)
    except Deadlock:
        raise
    except Exception as e:  # noqa: BLE001
        return ("exc", type(e).__name__, str(e)[:200])
    if plan["integration"] == "rdflib":
        # containers are sets; order inside one sink is rdflib's
        if res[0] == "seq":
            return ("ok", "seq", res[1])
        if res[0] == "bag":
            return ("ok", "bag", sorted(res[1], key=repr), sorted(res[2], key=repr))
        return ("ok", "frames", [(sorted(a, key=repr), sorted(b, key=repr)) for a, b in res[1]])
    return ("ok", *res)


def execute(plan, sim):
    import warnings
    warnings.simplefilter("ignore")
    data, delimited, physical = build(plan, sim)
    # one event per raw read, down to one byte per read: the event cap (a backstop against runaway runs) scales
    # with the stream (thorough-tier streams reach 300 KB)
    sim.cap = max(sim.cap, 12 * len(data) + 200_000)
    if not delimited:
        sim.count("nondelimited")
    base = consume(plan, io.BytesIO(data), physical)
    fe = plan["frontend"]
    sim.count("frontend_" + fe)
    pre = b"P" * int(plan.get("preamble") or 0) if fe in ("bytesio", "seekable_buffered") else b""
    if pre:
        sim.count("preamble_runs")
    if fe == "gzip" and plan.get("members"):
        sim.count("gzip_multi_member")
    fobj, pipe = open_frontend(fe, sim, data=data, policy=plan["policy"], bufsize=plan.get("bufsize"),
                               preamble=pre, members=plan.get("members"))
    if pipe is not None:
        pipe.read_cap = 4 * len(data) + 64
    try:
        got = consume(plan, fobj, physical)
    except Deadlock as e:
        return [{"clause": "C09.no_progress", "sig": {"frontend": fe},
                 "msg": f"parser did not finish within the raw-read cap: {e}"}], None
    first = pipe.first_reads[0] if pipe is not None and pipe.first_reads else None
    if first is not None and first < 3 and fe in ("raw", "buffered", "duck", "rwpair"):
        sim.count("first_read_lt3")
        if first == 1:
            sim.count("first_read_1")
    nshort = sim.faults.get("short_read", 0)
    if nshort >= 10:
        sim.count("short_reads_ge10")
    key = None
    if nshort and base[0] == "ok":
        key = (data, fe, sim.digest())
    if fe == "nonblocking" and got[0] == "exc" and sim.faults.get("no_data_yet"):
        # a source that answers "no data yet" (None) is outside the documented input contract: refusing it is
        # fine.  What must not happen is the silent alternative: taking "no data yet" for the end of the stream
        # and returning fewer statements.
        sim.count("nonblocking_refused")
        return [], key
    if got != base:
        sig = {"frontend": fe, "first_read_lt3": bool(first is not None and first < 3 and fe in ("raw", "buffered", "duck", "rwpair")),
               "delimited": delimited}
        return [{"clause": "C09.differs_from_bytesio", "sig": sig,
                 "msg": f"BytesIO -> {c01_abbrev(base)}; {fe} (first raw reads {pipe.first_reads if pipe else None}) "
                        f"-> {c01_abbrev(got)}"}], key
    return [], key


def c01_abbrev(x):
    s = repr(x)
    return s if len(s) < 300 else s[:300] + "..."
