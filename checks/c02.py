"""C02 - rdflib Graph/Dataset round trip preserves the RDF data (set semantics)."""
from __future__ import annotations

import copy

from checks import c01
from simkit import nodes, workload as W
from simkit import terms as T

ID = "C02"
LEVEL = "exploration"
TECHNIQUE = ('deterministic simulation (fault-free pipeline): seeded RDF 1.1 graphs/datasets x knob swarm x entry points, real rdflib writer -> channel -> real reader, oracle = input set')
LEVEL_NOTE = ('sampling of inputs and configurations; set semantics; terms compared as rdflib holds them')
OPTIMIZED_EVERY = 25      # every 25th run is executed in a child interpreter started with python -O
PBPY_EVERY = 50           # every 50th run (offset 6) is executed with protobuf's pure-Python backend
COMPILED_EVERY = 25       # every 25th run (offset 12) is executed in a child that imports a mypyc build of the tree
RUNS = {"quick": 40000, "thorough": 800000}
RULE = ("seeded runs of the fault-free pipeline with the rdflib integration: RDF 1.1 graph/dataset x knob "
        "swarm x entry point; non-trivial = >=2 distinct statements parsed back; distinct = distinct "
        "(configuration, statement set) pairs")
COMPONENTS = {"real": ["pyjelly rdflib serializer plugin and stream functions", "pyjelly rdflib parsers "
                       "and parser plugin", "rdflib 7.6 Graph/Dataset", "protobuf upb"],
              "stub": ["byte channel (simkit.pipe)"]}
ASSUMPTIONS = ["terms are compared as rdflib holds them after construction (rdflib's own lexical "
               "normalisation is not judged)", "PYTHONHASHSEED pinned so rdflib set order replays"]
PROBES = ["evictions", "physical_GRAPHS", "physical_QUADS", "nondelimited", "default_graph_used",
          "bnode_graph_used"]
SHRINK_LISTS = ["ops"]

GRAPH_ENTRIES = ["graph_serialize", "graph_serialize", "graph_serialize_guess", "frames_sink", "frames_gen",
                 "flat_file", "grouped_file"]
DATASET_ENTRIES = ["graph_serialize", "graph_serialize", "frames_sink", "frames_gen", "flat_file", "grouped_file",
                   "graph_serialize_guess"]


def generate(rng, run, tier):
    physical = rng.choice(["TRIPLES", "QUADS", "QUADS", "GRAPHS", "GRAPHS"])
    entry = rng.choice(GRAPH_ENTRIES if physical == "TRIPLES" else DATASET_ENTRIES)
    if physical == "GRAPHS" and entry in ("flat_file", "grouped_file", "graph_serialize_guess"):
        physical = "QUADS"  # these entry points pick QuadStream for datasets
    stmts, flags, sizes, _ = c01.gen_workload(rng, physical, rdflib_safe=True, max_n=30)
    mp, mn, md = c01.fit_tables(rng, stmts, [], sizes, physical)
    if md == 0 and W.has_datatypes(stmts):
        md = max(1, W.max_needs(stmts)[2])
    delimited = True
    logical = 1 if physical == "TRIPLES" else 2
    if entry in ("frames_sink", "frames_gen") or (entry == "graph_serialize" and physical == "GRAPHS"):
        if rng.random() < 0.4:
            logical = rng.choice(c01.TRIPLE_LOGICALS if physical == "TRIPLES" else c01.QUAD_LOGICALS)
    if entry in ("graph_serialize", "frames_sink", "frames_gen") and logical in (1, 2) and rng.random() < 0.25:
        delimited = False
    cfg = nodes.default_cfg(
        integration="rdflib", physical=physical, logical=logical, delimited=delimited,
        frame_size=rng.choice([1, 2, 3, 5, 8, 250]), max_names=mn, max_prefixes=mp, max_datatypes=md,
        generalized=False, rdf_star=False, entry=entry,
    )
    if entry == "graph_serialize" and physical == "GRAPHS":
        cfg["pass_stream"] = True
    if entry == "graph_serialize" and physical != "GRAPHS" and rng.random() < 0.3:
        cfg["pass_stream"] = True
    if entry == "grouped_file":
        cfg["groups"] = c01.split_groups(rng, len(stmts))
    consumer = rng.choice(["flat", "to_graph", "plugin", "grouped"])
    return {
        "cfg": cfg,
        "ops": [["stmt", *T.to_json(st)] for st in stmts],
        "consumer": consumer,
        "frontend": rng.choice(["bytesio", "buffered", "bytesio", "seekable_buffered"]),
    }


def simplify(plan):
    for key, val in (("frontend", "bytesio"), ("consumer", "flat")):
        if plan.get(key) != val:
            p = copy.deepcopy(plan)
            p[key] = val
            yield p


def expected_set(stmts):
    out = set()
    for st in stmts:
        if len(st) == 3:
            out.add(tuple(T.from_rdflib(T.to_rdflib(t)) for t in st))
        else:
            out.add((*(T.from_rdflib(T.to_rdflib(t)) for t in st[:3]),
                     T.from_rdflib(T.to_rdflib(st[3]), graph_slot=True)))
    return out


def parse_back(plan, sim, data):
    from simkit.pipe import open_frontend
    cfg = plan["cfg"]
    fobj, _ = open_frontend(plan["frontend"], sim, data=data, policy="safe")
    kind = plan["consumer"]
    try:
        if kind == "flat":
            items = list(nodes.parse_flat("rdflib", fobj))
        elif kind == "to_graph":
            items, _ = nodes.parse_to_graph("rdflib", fobj)
        elif kind == "plugin":
            items, _ = nodes.parse_to_graph("rdflib", fobj,
                                            via_plugin="graph" if cfg["physical"] == "TRIPLES" else "dataset")
        else:
            items = []
            for sts, _ in nodes.parse_grouped("rdflib", fobj):
                items.extend(sts)
    except Exception as e:  # noqa: BLE001
        return None, e
    return items, None


def execute(plan, sim):
    import warnings
    warnings.simplefilter("ignore")
    cfg = plan["cfg"]
    stmts, _ = nodes.split_ops(plan["ops"])
    exp = expected_set(stmts)
    c01.probes(sim, plan, None)
    if any(len(st) == 4 and st[3] == T.DEFAULT for st in stmts):
        sim.count("default_graph_used")
    if any(len(st) == 4 and st[3][0] == "bnode" for st in stmts):
        sim.count("bnode_graph_used")
    try:
        data = nodes.serialize(cfg, plan["ops"], sim)
    except Exception as e:  # noqa: BLE001
        return [{"clause": "C02.serialize_raised", "sig": {"exc": type(e).__name__},
                 "msg": f"serializer raised {type(e).__name__}: {e}"}], None
    items, err = parse_back(plan, sim, data)
    if err is not None:
        return [{"clause": "C02.parse_raised", "sig": {"exc": type(err).__name__},
                 "msg": f"parser raised {type(err).__name__}: {err}"}], None
    got = set(items)
    key = (repr(sorted(cfg.items())), repr(sorted(exp, key=repr))) if len(exp) >= 2 else None
    if cfg["physical"] == "TRIPLES" and plan["consumer"] in ("plugin",):
        got = {g[:3] for g in got}
    if got != exp:
        missing = sorted(exp - got, key=repr)[:2]
        extra = sorted(got - exp, key=repr)[:2]
        what = "missing" if missing and not extra else ("extra" if extra and not missing else "changed")
        slot = -1
        if missing and extra:
            m, x = missing[0], extra[0]
            slot = next((j for j in range(min(len(m), len(x))) if m[j] != x[j]), -1)
        return [{"clause": "C02.set_differs", "sig": {"what": what, "slot": slot},
                 "msg": f"missing={missing!r} extra={extra!r}"}], key
    from simkit import refdec
    r = refdec.decode_stream(data, nodes.wrote_delimited(cfg))
    if r.ok and sum(r.audit["evictions"]):
        sim.count("evictions")
    return [], key
