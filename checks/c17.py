"""C17 - arbitrary bytes cannot crash, hang or balloon the parser."""
from __future__ import annotations

import copy
import io
import os
import random
import resource
import select
import signal
import time

from checks import c04
from simkit import nodes, refenc, wire
from simkit import terms as T
from simkit.kernel import Deadlock, HarnessError, Sim
from simkit.pipe import Pipe, open_frontend

ID = "C17"
LEVEL = "exploration"
TECHNIQUE = ('deterministic simulation with corruption faults in forked children: random / mutated / structure-aware hostile byte strings, outcome + raw-read cap + peak-RSS accounting per input, watchdog')
LEVEL_NOTE = ('seeded sampling of byte strings; resident (not virtual) memory judged; hang = no result in 20 s confirmed twice')
OPTIMIZED_EVERY = 25      # every 25th run is executed in a child interpreter started with python -O
COMPILED_EVERY = 25       # every 25th run (offset 12) is executed in a child that imports a mypyc build of the tree
RUNS = {"quick": 800, "thorough": 30000}
CHUNK = 10
BATCH = 40
RULE = ("each run is a batch of 40 byte strings parsed in a forked child (so that a killed interpreter is observable "
        "and memory is attributable; peak RSS reset before each input): uniformly random bytes, bit-flipped / spliced "
        "/ truncated / frame-duplicated valid streams, and structure-aware hostile streams (declared frame, string and "
        "table sizes from 4097 to 2^63, quoted-triple nesting up to 10000, options rows in odd places, 100k empty "
        "frames); flat and grouped parsers of both integrations through BytesIO, raw and buffered sources; "
        "evaluations = inputs parsed; non-trivial = the parser consumed the input beyond the header (>=1 row decoded "
        "or a structured error raised); distinct = distinct input byte strings")
COMPONENTS = {"real": ["all flat/grouped parse entry points of both integrations", "protobuf upb parser limits",
                       "io.BufferedReader", "the CPython allocator (resident memory measured from /proc)"],
              "stub": ["corrupting channel (corrupt / hostile fault kinds)", "watchdog and RLIMIT_AS safety net"]}
ASSUMPTIONS = ["resident, not virtual, memory is judged: bound 48 MiB + 64 x input length for the streaming consumers (flat, grouped), 48 MiB + 2048 x input length where the caller asked for a container that keeps every statement (to_graph, plugin)",
               "a MemoryError counts as an ordinary exception only when resident growth stayed within the bound",
               "hang = no result within 30 s for an input that normally takes < 5 ms, confirmed by two re-runs"]
PROBES = ["kind_random", "kind_mutated", "kind_hostile", "returned", "raised", "raised_MemoryError",
          "hostile_table_sizes", "hostile_frame_length", "hostile_nesting", "hostile_string_length",
          "hostile_options_position", "hostile_many_frames", "hostile_long_varint", "frontend_raw", "frontend_buffered", "children_forked"]
SHRINK_LISTS = ["inputs"]
WALL = {"quick": 1500, "thorough": 20000}
RSS_BASE = 48 << 20
RSS_PER_BYTE = 64        # streaming consumers (flat, grouped) hold nothing once an item was handed out
RSS_PER_BYTE_KEPT = 2048  # to_graph / plugin: the container keeps every statement (a 2-byte row -> one statement object)
SHRINK_BUDGET = (60, 15.0)
TIMEOUT = 30.0


def generate(rng, run, tier):
    inputs = []
    for _ in range(BATCH):
        c = rng.random()
        if c < 0.2:
            inputs.append({"kind": "random", "len": rng.choice([0, 1, 2, 3, 4, 8, 16, 64, 300, 5000]),
                           "seed": rng.randrange(1 << 30), "bias": rng.choice(["uniform", "proto", "low"])})
        elif c < 0.6:
            inputs.append({"kind": "mutated", "seed": rng.randrange(1 << 30), "n_mut": rng.choice([1, 1, 2, 4, 16]),
                           "op": rng.choice(["bitflip", "byte", "insert", "delete", "splice", "truncate", "dupframe",
                                             "swapframes", "tail", "varint_inflate"])})
        else:
            inputs.append(gen_hostile(rng))
    for i in inputs:
        i["consumer"] = rng.choice(["flat", "flat", "grouped", "to_graph", "plugin"])
        i["integration"] = rng.choice(["generic", "generic", "rdflib"])
        i["frontend"] = rng.choice(["bytesio", "bytesio", "raw", "buffered"])
        if i.get("template") == "big_frame":
            i["frontend"] = rng.choice(["raw", "raw", "buffered", "bytesio"])
        if i.get("template") == "many_frames" and i["integration"] == "rdflib" and i["consumer"] == "grouped":
            # one rdflib Graph/Dataset per frame by design; constructing one costs ~0.2 ms in rdflib itself
            i["count"] = min(i["count"], 2000)
    if run == 5:
        # one fixed heavy case per invocation: a valid 6 MB frame arriving in 64-byte pieces (work must stay linear)
        inputs[0] = {"kind": "hostile", "template": "big_frame", "seed": 5, "delimited": True, "size": 6_000_000,
                     "chunk": 64, "consumer": "flat", "integration": "generic", "frontend": "raw"}
    if run == 3:
        # one fixed heavy case per invocation (both tiers): ~160 KB of declarations that all use one label. ~37 s of
        # CPU here against the 15 s promptness bound, with its own 150 s watchdog: the verdict is the same on a
        # machine 2x faster or 3x slower
        inputs[0] = {"kind": "hostile", "template": "many_namespaces", "seed": 3, "delimited": True, "count": 6000, "timeout": 150,
                     "same_label": True, "consumer": "to_graph", "integration": "rdflib", "frontend": "bytesio"}
    return {"inputs": inputs}


SIZES = [4097, 5000, 1 << 16, 1 << 20, 1 << 24, 1 << 28, (1 << 31) - 1, (1 << 32) - 1]


def gen_hostile(rng):
    t = rng.choice(["table_sizes", "table_sizes", "frame_length", "nesting", "string_length", "options_position",
                    "many_frames", "entry_ids", "long_varint", "literal_magnitude", "many_namespaces", "big_frame"])
    h = {"kind": "hostile", "template": t, "seed": rng.randrange(1 << 30), "delimited": rng.random() < 0.7}
    if t == "table_sizes":
        h["which"] = rng.choice(["names", "prefixes", "datatypes", "all"])
        h["size"] = rng.choice(SIZES)
    elif t == "frame_length":
        h["length"] = rng.choice([1 << 20, 1 << 28, (1 << 31) - 1, 1 << 31, 1 << 33, 1 << 40, (1 << 63) - 1,
                                  (1 << 64) - 1])
        h["body"] = rng.choice([0, 1, 10, 1000])
    elif t == "nesting":
        h["depth"] = rng.choice([10, 50, 99, 100, 101, 150, 1000, 10000])
    elif t == "string_length":
        h["length"] = rng.choice([1 << 20, 1 << 28, (1 << 31) - 1, 1 << 35])
        h["where"] = rng.choice(["name_entry", "literal", "bnode", "stream_name", "row"])
    elif t == "options_position":
        h["variant"] = rng.choice(["middle_bigger", "twice_different", "after_statement", "only_options", "none"])
        h["size"] = rng.choice([16, 4096, 1 << 20, 1 << 28])
    elif t == "many_frames":
        h["count"] = rng.choice([1000, 100000])
        h["variant"] = rng.choice(["empty", "empty_then_valid", "tiny_rows"])
    elif t == "big_frame":
        # a VALID stream with one large frame (one long literal), delivered in small pieces
        h["size"] = rng.choice([20_000, 200_000])
        h["chunk"] = rng.choice([1, 7, 64, 1024])
    elif t == "many_namespaces":
        # a version-2 stream that is nothing but namespace declarations
        h["count"] = rng.choice([10, 300, 1200])
        h["same_label"] = rng.random() < 0.5
    elif t == "literal_magnitude":
        # a short literal whose lexical form *declares* a size: a decimal / double / integer with a huge exponent
        h["exponent"] = rng.choice([1000, 1_000_000, 30_000_000, 60_000_000])   # 60 M digits ~ 115 MiB: clear of the bound, small enough for 16 children at once
        h["sign"] = rng.choice(["+", "+", "-"])
        h["datatype"] = rng.choice(["decimal", "decimal", "double", "integer", "float"])
    elif t == "long_varint":
        h["length"] = rng.choice([11, 64, 4096, 1 << 16, 1 << 18, 1 << 20])
        h["where"] = rng.choice(["start", "after_frame", "inside_row"])
    else:
        h["count"] = rng.choice([1, 10, 5000])
        h["id"] = rng.choice([0, 1, 16, 17, 4096, 4097, 1 << 16, 1 << 20, 1 << 22, 1 << 24, 1 << 26, (1 << 32) - 1])
        h["table"] = rng.choice(["name", "prefix", "datatype"])
    return h


# ------------------------------------------------------------------ building inputs from recipes
def base_stream(rng):
    """A small valid stream (reference encoder) to mutate."""
    physical = rng.choice([1, 2, 3])
    n = rng.choice([1, 2, 5, 12])
    items = []
    for i in range(n):
        s = ("iri", f"http://e/{rng.choice('abc')}/{rng.randrange(6)}")
        p = ("iri", f"http://e/p#{rng.randrange(3)}")
        o = rng.choice([("lit", f"v{i}", None, None), ("lit", "x", "en", None), ("lit", "1", None, "http://dt/i"),
                        ("bnode", "b"), ("triple", ("bnode", "q"), p, ("lit", "z", None, None))])
        st = [s, p, o]
        if physical != 1:
            st.append(rng.choice([("default",), ("iri", "http://e/g"), ("bnode", "g")]))
        items.append(tuple(st))
    opts = refenc.make_opts(physical, 0, rng.choice([8, 16, 4000]), rng.choice([0, 8, 150]), rng.choice([2, 32]),
                            rng.choice([1, 2]), "", True, True)
    sim = Sim(rng=random.Random(rng.randrange(1 << 30)))
    delimited = rng.random() < 0.8
    data, frames, _ = refenc.encode(items, opts, sim, {"weird": rng.choice([0, 1, 2]), "frame_rows": rng.choice([1, 3, 50])},
                                    delimited)
    return data, frames, delimited, opts


def build_input(rec) -> bytes:
    rng = random.Random(rec["seed"])
    k = rec["kind"]
    if k == "random":
        n = rec["len"]
        if rec["bias"] == "uniform":
            return bytes(rng.randrange(256) for _ in range(n))
        if rec["bias"] == "low":
            return bytes(rng.choice([0, 1, 2, 8, 10, 0x0A, 0x12, 0x1A, 0x4A, 0x52, 0x80, 0xFF]) for _ in range(n))
        return bytes(rng.choice([0x0A, 0x0A, 0x12, 0x1A, 0x22, 0x4A, 0x52, 0x5A, 0x08, 0x10, 0x78, rng.randrange(256)])
                     for _ in range(n))
    if k == "mutated":
        data, frames, delimited, opts = base_stream(rng)
        b = bytearray(data)
        op = rec["op"]
        for _ in range(rec["n_mut"]):
            if not b:
                break
            pos = rng.randrange(len(b))
            if op == "bitflip":
                b[pos] ^= 1 << rng.randrange(8)
            elif op == "byte":
                b[pos] = rng.randrange(256)
            elif op == "insert":
                b[pos:pos] = bytes(rng.randrange(256) for _ in range(rng.choice([1, 2, 9])))
            elif op == "delete":
                del b[pos:pos + rng.choice([1, 2, 9])]
            elif op == "truncate":
                del b[pos:]
            elif op == "tail":
                b += bytes(rng.randrange(256) for _ in range(rng.choice([1, 5, 200])))
            elif op == "varint_inflate":
                b[pos] |= 0x80
            elif op == "splice":
                other, _, _, _ = base_stream(rng)
                cut = rng.randrange(len(other) + 1)
                b = bytearray(bytes(b[:pos]) + other[cut:])
            elif op in ("dupframe", "swapframes") and delimited and len(frames) >= 1:
                fb = [f.encode() for f in frames]
                i = rng.randrange(len(fb))
                if op == "dupframe":
                    fb.insert(i, fb[i])
                else:
                    j = rng.randrange(len(fb))
                    fb[i], fb[j] = fb[j], fb[i]
                b = bytearray(wire.join_delimited(fb))
        return bytes(b)
    return build_hostile(rec, rng)


def _opts(names=16, prefixes=8, datatypes=4, physical=1, version=1):
    return refenc.make_opts(physical, 0, names, prefixes, datatypes, version, "", True, True)


def _stmt_rows():
    return [wire.enc_row(("prefix", 0, "http://e/")), wire.enc_row(("name", 0, "a")),
            wire.enc_row(("triple", ("iri", 1, 0), ("iri", 0, 1), ("lit", "v", None)))]


def build_hostile(rec, rng) -> bytes:
    t = rec["template"]
    delim = rec["delimited"]

    def stream(rows):
        return wire.write_stream([wire.Frame(rows)], delim)
    if t == "table_sizes":
        size = rec["size"]
        w = rec["which"]
        o = _opts(names=size if w in ("names", "all") else 16, prefixes=size if w in ("prefixes", "all") else 8,
                  datatypes=size if w in ("datatypes", "all") else 4)
        return stream([wire.enc_row(("options", o))] + _stmt_rows())
    if t == "frame_length":
        body = wire.Frame([wire.enc_row(("options", _opts()))] + _stmt_rows()).encode()
        body = (body * 50)[: rec["body"]] if rec["body"] else b""
        return wire.enc_varint(rec["length"]) + body
    if t == "nesting":
        # built iteratively at byte level (the codec's encoder is recursive)
        body = wire.f_str(2, "s") + wire.f_str(6, "p") + wire.f_bytes(11, wire.f_str(1, "x"))
        for _ in range(rec["depth"]):
            body = wire.f_str(2, "s") + wire.f_str(6, "p") + wire.f_bytes(12, body)
        rows = [wire.enc_row(("options", _opts())), wire.f_bytes(2, body)]
        return stream(rows)
    if t == "string_length":
        ln = wire.enc_varint(rec["length"])
        where = rec["where"]
        if where == "name_entry":
            row = wire.key(9, 2) + wire.enc_varint(len(ln) + 3) + wire.key(2, 2) + ln + b"ab"
        elif where == "literal":
            row = wire.key(2, 2) + wire.enc_varint(len(ln) + 6) + wire.key(11, 2) + wire.enc_varint(len(ln) + 3) \
                + wire.key(1, 2) + ln + b"ab"
        elif where == "bnode":
            row = wire.key(2, 2) + wire.enc_varint(len(ln) + 3) + wire.key(2, 2) + ln + b"ab"
        elif where == "stream_name":
            row = wire.key(1, 2) + wire.enc_varint(len(ln) + 3) + wire.key(1, 2) + ln + b"ab"
        else:
            frame = wire.f_bytes(1, wire.enc_row(("options", _opts()))) + wire.key(1, 2) + ln + b"abc"
            return wire.enc_varint(len(frame)) + frame if delim else frame
        return stream([wire.enc_row(("options", _opts())), row])
    if t == "options_position":
        var = rec["variant"]
        big = _opts(names=rec["size"], prefixes=rec["size"], datatypes=rec["size"])
        small = wire.enc_row(("options", _opts()))
        if var == "middle_bigger":
            rows = [small] + _stmt_rows() + [wire.enc_row(("options", big))] + _stmt_rows()
        elif var == "twice_different":
            rows = [small, wire.enc_row(("options", big))] + _stmt_rows()
        elif var == "after_statement":
            rows = _stmt_rows() + [small]
        elif var == "only_options":
            rows = [wire.enc_row(("options", big))]
        else:
            rows = _stmt_rows()
        return stream(rows)
    if t == "many_frames":
        n = rec["count"]
        if rec["variant"] == "empty":
            return b"\x00" * n
        if rec["variant"] == "empty_then_valid":
            return b"\x00" * n + wire.write_stream([wire.Frame([wire.enc_row(("options", _opts()))] + _stmt_rows())], True)
        first = wire.Frame([wire.enc_row(("options", _opts()))]).encode()
        tiny = wire.Frame([wire.enc_row(("name", 0, "n"))]).encode()
        return wire.join_delimited([first] + [tiny] * n)
    if t == "big_frame":
        rows = [wire.enc_row(("options", _opts())), wire.enc_row(("prefix", 0, "http://e/")),
                wire.enc_row(("name", 0, "a")),
                wire.enc_row(("triple", ("iri", 1, 0), ("iri", 0, 1), ("lit", "x" * rec["size"], None)))]
        return wire.write_stream([wire.Frame(rows)], True)
    if t == "many_namespaces":
        rows = [wire.enc_row(("options", _opts(names=4000, prefixes=8, version=2))), wire.enc_row(("prefix", 1, "http://e/"))]
        for i in range(rec["count"]):
            rows.append(wire.enc_row(("name", 1, f"n{i}/")))
            rows.append(wire.enc_row(("namespace", "p" if rec["same_label"] else f"p{i}", ("iri", 1, 1))))
        return stream(rows + _stmt_rows())
    if t == "literal_magnitude":
        lex = f"1E{rec['sign']}{rec['exponent']}"
        rows = [wire.enc_row(("options", _opts())), wire.enc_row(("prefix", 0, "http://e/")),
                wire.enc_row(("name", 0, "a")),
                wire.enc_row(("datatype", 0, "http://www.w3.org/2001/XMLSchema#" + rec["datatype"])),
                wire.enc_row(("triple", ("iri", 1, 0), ("iri", 0, 1), ("lit", lex, ("dt", 1))))]
        return stream(rows)
    if t == "long_varint":
        run = b"\xff" * rec["length"] + b"\x01"
        first = wire.write_stream([wire.Frame([wire.enc_row(("options", _opts()))] + _stmt_rows())], True)
        if rec["where"] == "start":
            return run + first
        if rec["where"] == "after_frame":
            return first + run + b"abc"
        row = wire.key(9, 2) + run
        return stream([wire.enc_row(("options", _opts())), row])
    # entry ids
    rows = [wire.enc_row(("options", _opts()))]
    for i in range(rec["count"]):
        rows.append(wire.enc_row((rec.get("table", "name"), rec["id"], f"n{i}")))
    rows += _stmt_rows()
    return stream(rows)


# ------------------------------------------------------------------ the forked child
def vm(field: str) -> int:
    with open("/proc/self/status") as fh:
        for line in fh:
            if line.startswith(field + ":"):
                return int(line.split()[1]) * 1024
    return 0


def reset_peak() -> bool:
    """Reset the resident-memory high-water mark of this process; False where the kernel interface is not writable
    (then the mark of an earlier input would be charged to the later ones: the child handles one input only)."""
    try:
        with open("/proc/self/clear_refs", "w") as fh:
            fh.write("5")
    except OSError:
        return False
    return True


def parse_one(rec, data: bytes):
    """Returns (outcome, detail, n_items, raw_reads)."""
    sim = Sim(rng=random.Random(rec["seed"]), cap=10_000_000)
    fe = rec["frontend"]
    pipe = None
    if fe == "bytesio":
        fobj = io.BytesIO(data)
    else:
        pipe = Pipe(sim, data)
        pipe.read_cap = 4 * len(data) + 64
        fobj, _ = open_frontend(fe, sim, pipe=pipe, policy=f"chunk:{rec['chunk']}" if rec.get("chunk") else "tape")
    n = 0
    try:
        if rec["consumer"] == "flat":
            for _ in nodes.parse_flat(rec["integration"], fobj):
                n += 1
        elif rec["consumer"] in ("to_graph", "plugin"):
            via = False
            if rec["consumer"] == "plugin":
                via = True if rec["integration"] == "generic" else "dataset"
            sts, _ = nodes.parse_to_graph(rec["integration"], fobj, via_plugin=via)
            n += len(sts)
        else:
            for sts, nss in nodes.parse_grouped(rec["integration"], fobj):
                n += len(sts) + 1
    except Deadlock as e:
        return "read_cap", str(e), n, pipe.raw_reads if pipe else 0
    except MemoryError as e:
        return "raised", "MemoryError", n, pipe.raw_reads if pipe else 0
    except Exception as e:  # noqa: BLE001
        return "raised", type(e).__name__, n, pipe.raw_reads if pipe else 0
    except BaseException as e:  # noqa: BLE001
        return "base_exception", type(e).__name__, n, 0
    return "returned", "", n, pipe.raw_reads if pipe else 0


def child_main(inputs, start, wfd):
    import gc
    try:
        soft = vm("VmSize") + (4 << 30)
        resource.setrlimit(resource.RLIMIT_AS, (soft, soft))
    except (ValueError, OSError):
        pass
    if not vm("VmRSS") or not vm("VmHWM"):
        os.write(wfd, b"X no-VmRSS/VmHWM-in-/proc/self/status\n")
        os._exit(4)
    for i in range(start, len(inputs)):
        rec = inputs[i]
        data = build_input(rec)
        gc.collect()
        os.write(wfd, f"S {i} {len(data)}\n".encode())
        can_reset = reset_peak()
        before = vm("VmRSS")
        # CPU time of this child, not wall time: the parse neither sleeps nor waits, and CPU time does not
        # depend on how busy the machine is (the wall-clock watchdog of the parent stays)
        t0 = time.process_time()
        outcome, detail, n, reads = parse_one(rec, data)
        dt = time.process_time() - t0
        peak = vm("VmHWM")
        growth = max(0, peak - before)
        detail = (detail or "-").replace(" ", "_").replace("\n", "_")[:120]
        os.write(wfd, f"R {i} {outcome} {detail} {n} {reads} {growth} {dt:.4f}\n".encode())
        if not can_reset:
            os._exit(0)         # a fresh child (fresh high-water mark) for the next input
    os._exit(0)


# Circuit breaker.  A change that makes ordinary inputs hang (a read loop without an end-of-input exit, say) would
# cost one 30 s watchdog per input: after three hangs seen by a worker process the verdict is settled (each was
# reported) and the rest of that worker's inputs are skipped, so that the VIOLATION is printed within minutes.
# Never triggered on a tree without hangs; the fixed many_namespaces case of the known finding does not count.
_HANGS = {"n": 0}
BREAKER = 3


def run_batch(inputs, sim, breaker=True):
    """Run all inputs in forked children. Returns per-input result dicts."""
    results = {}
    start = 0
    while start < len(inputs):
        if breaker and _HANGS["n"] >= BREAKER:
            for i in range(start, len(inputs)):
                results.setdefault(i, {"outcome": "skipped", "detail": "circuit breaker", "items": 0, "reads": 0,
                                       "growth": 0, "secs": 0, "len": 0})
            break
        r, w = os.pipe()
        pid = os.fork()
        if pid == 0:
            os.close(r)
            try:
                child_main(inputs, start, w)
            except BaseException:  # noqa: BLE001
                import traceback
                traceback.print_exc()
            finally:
                os._exit(3)
        os.close(w)
        sim.count("children_forked")
        buf = b""
        current = None
        cur_len = 0
        deadline = time.monotonic() + TIMEOUT
        hung = False
        while True:
            left = deadline - time.monotonic()
            if left <= 0:
                hung = True
                break
            rl, _, _ = select.select([r], [], [], min(left, 1.0))
            if not rl:
                continue
            chunk = os.read(r, 65536)
            if not chunk:
                break
            buf += chunk
            while b"\n" in buf:
                line, buf = buf.split(b"\n", 1)
                parts = line.decode().split(" ")
                if parts[0] == "X":
                    raise HarnessError(f"memory cannot be measured on this system: {parts[1:]}")
                if parts[0] == "S":
                    current = int(parts[1])
                    cur_len = int(parts[2])
                    deadline = time.monotonic() + inputs[current].get("timeout", TIMEOUT)
                else:
                    i = int(parts[1])
                    results[i] = {"outcome": parts[2], "detail": parts[3], "items": int(parts[4]),
                                  "reads": int(parts[5]), "growth": int(parts[6]), "secs": float(parts[7]),
                                  "len": cur_len}
                    current = None
        os.close(r)
        if hung:
            os.kill(pid, signal.SIGKILL)
        _, status = os.waitpid(pid, 0)
        abnormal = os.WIFSIGNALED(status) or (os.WIFEXITED(status) and os.WEXITSTATUS(status) != 0)
        if hung and current is not None:
            results[current] = {"outcome": "hang", "detail": f"no result within {TIMEOUT}s", "items": 0, "reads": 0,
                                "growth": 0, "secs": TIMEOUT, "len": cur_len}
            if breaker and inputs[current].get("template") != "many_namespaces":
                _HANGS["n"] += 1
            start = current + 1
        elif abnormal and current is not None:
            why = f"signal {os.WTERMSIG(status)}" if os.WIFSIGNALED(status) else f"exit status {os.WEXITSTATUS(status)}"
            results[current] = {"outcome": "died", "detail": why, "items": 0, "reads": 0, "growth": 0, "secs": 0,
                                "len": cur_len}
            start = current + 1
        elif abnormal or hung:
            raise HarnessError(f"child ended abnormally outside an input (status {status}, hung={hung})")
        else:
            # normal exit: all done, or a one-input child (no high-water-mark reset on this kernel) - go on
            nxt = next((i for i in range(start, len(inputs)) if i not in results), None)
            if nxt is None:
                break
            if nxt == start and start in results:
                raise HarnessError("child exited without making progress")
            start = nxt
    return results


def execute(plan, sim):
    inputs = plan["inputs"]
    results = run_batch(inputs, sim)
    v = {}
    keys = set()
    for i, rec in enumerate(inputs):
        res = results.get(i)
        if res is None:
            raise HarnessError(f"no result for input {i}")
        if res["outcome"] == "skipped":
            sim.count("skipped_after_hangs")
            continue
        sim.count("evaluations")
        sim.count("kind_" + rec["kind"])
        sim.fault("corrupt_" + (rec.get("op") or rec.get("template") or rec["kind"]))
        if rec["kind"] == "hostile":
            sim.count("hostile_" + {"entry_ids": "table_sizes"}.get(rec["template"], rec["template"]))
        if rec["frontend"] != "bytesio":
            sim.count("frontend_" + rec["frontend"])
        sim.event("input", i, rec["kind"], res["len"], res["outcome"], res["detail"], res["items"])
        oc = res["outcome"]
        sig_base = {"kind": rec["kind"], "template": rec.get("template") or rec.get("op") or "-"}
        if rec.get("template") in ("literal_magnitude", "many_namespaces"):
            sig_base["integration"] = rec["integration"]
        where = f"input {i} ({rec['kind']} {rec.get('template') or rec.get('op') or ''}, {res['len']} bytes, " \
                f"{rec['integration']} {rec['consumer']} via {rec['frontend']})"
        if oc == "returned":
            sim.count("returned")
        elif oc == "raised":
            sim.count("raised")
            if res["detail"] == "MemoryError":
                sim.count("raised_MemoryError")
        if oc in ("returned", "raised") and (res["items"] or oc == "raised"):
            keys.add((rec["kind"], rec["seed"], rec.get("template"), rec.get("op"), res["len"]))
        bound = RSS_BASE + (RSS_PER_BYTE_KEPT if rec["consumer"] in ("to_graph", "plugin") else RSS_PER_BYTE) * res["len"]
        if oc == "hang":
            # confirm twice, alone
            confirmed = all(run_batch([rec], sim, breaker=False)[0]["outcome"] == "hang" for _ in range(2))
            if confirmed:
                v.setdefault(("hang", rec.get("template")), {"clause": "C17.hang", "sig": sig_base,
                                                              "msg": f"{where}: no result within {TIMEOUT} s (3 attempts)"})
        elif oc == "died":
            v.setdefault(("died", rec.get("template")), {"clause": "C17.interpreter_died", "sig": sig_base,
                                                          "msg": f"{where}: child interpreter ended with {res['detail']}"})
        elif oc == "base_exception":
            v.setdefault(("base", res["detail"]), {"clause": "C17.non_ordinary_exception", "sig": {**sig_base, "exc": res["detail"]},
                                                   "msg": f"{where}: raised {res['detail']} (not an Exception subclass)"})
        elif oc == "read_cap":
            v.setdefault(("reads",), {"clause": "C17.unbounded_reads", "sig": sig_base, "msg": f"{where}: {res['detail']}"})
        if oc in ("returned", "raised") and res["growth"] > bound:
            v.setdefault(("mem", rec.get("template")), {
                "clause": "C17.memory_balloons", "sig": sig_base,
                "msg": f"{where}: resident memory grew by {res['growth'] >> 20} MiB (bound {bound >> 20} MiB), outcome "
                       f"{oc} {res['detail']}"})
        if oc in ("returned", "raised") and res["items"] > max(res["len"], 1):
            v.setdefault(("items",), {"clause": "C17.more_items_than_bytes", "sig": sig_base,
                                      "msg": f"{where}: {res['items']} items from {res['len']} bytes"})
        if oc in ("returned", "raised") and res["secs"] > 15:
            v.setdefault(("slow",), {"clause": "C17.not_prompt", "sig": sig_base,
                                     "msg": f"{where}: took {res['secs']:.1f} s of CPU time"})
    return list(v.values()), frozenset(keys) if keys else None
