"""C18 - a statement too big for the lookup tables is refused, not corrupted."""
from __future__ import annotations

import copy

from checks import c01
from simkit import nodes, refdec, workload as W
from simkit import terms as T

ID = "C18"
LEVEL = "exploration"
TECHNIQUE = ("deterministic simulation (fault-free pipeline) in the under-sized-cache regime: tables smaller than one statement's working set; oracle = raises, or reference decoder reads back the input")
LEVEL_NOTE = ('sampled statements x presets; which table is exceeded computed from the workload')
OPTIMIZED_EVERY = 25      # every 25th run is executed in a child interpreter started with python -O
PBPY_EVERY = 50           # every 50th run (offset 6) is executed with protobuf's pure-Python backend
COMPILED_EVERY = 25       # every 25th run (offset 12) is executed in a child that imports a mypyc build of the tree
RUNS = {"quick": 80000, "thorough": 1500000}
RULE = ("seeded runs in the under-sized regime: max_prefixes 1..3, max_datatypes 1..3 with generalized literals, "
        "max_names 8..26 with nested quoted triples, at least one statement needing more distinct entries of some "
        "enabled table than it has slots; oracle: serialization raises, or the reference decoder reads back exactly "
        "the input; non-trivial = some statement really exceeds a table (computed from the workload); distinct = "
        "distinct (preset, statement sequence)")
COMPONENTS = {"real": ["pyjelly generic serializer, TermEncoder, LookupEncoder/Lookup"],
              "stub": ["reader: simkit.refdec"]}
ASSUMPTIONS = ["which table is exceeded is computed from the workload (conventional IRI split), independently of "
               "the failing output"]
PROBES = ["over_prefix", "over_name", "over_datatype", "decoded_ok", "raised"]
SHRINK_LISTS = ["ops"]


def generate(rng, run, tier):
    which = rng.choice(["prefix", "prefix", "datatype", "name"])
    physical = rng.choice(["TRIPLES", "QUADS", "GRAPHS"])
    flags = {"generalized": True, "rdf_star": True, "max_depth": 1, "p_repeat": 0.2, "datatypes": True}
    mp, mn, md = 8, 16, 8
    if which == "prefix":
        mp = rng.choice([1, 1, 2, 3])
        pools = W.Pools(rng, mp + 3, 6, 4)
        flags["max_depth"] = rng.choice([1, 2])
    elif which == "datatype":
        md = rng.choice([1, 1, 2, 3])
        pools = W.Pools(rng, 3, 6, md + 3)
    else:
        mn = rng.choice([8, 8, 9, 12, 16, 26])
        pools = W.Pools(rng, 3, mn + 8, 3, odd=False)
        flags["max_depth"] = 3
        flags["p_repeat"] = 0.05
    n = rng.choice([1, 2, 3, 5, 8])
    arity = 3 if physical == "TRIPLES" else 4
    stmts = W.gen_statements(rng, n, arity, flags, pools)
    cfg = nodes.default_cfg(physical=physical, logical=1 if physical == "TRIPLES" else 2,
                            frame_size=rng.choice([1, 3, 250]), max_names=mn, max_prefixes=mp, max_datatypes=md,
                            generalized=True, rdf_star=True, entry=rng.choice(["frames_gen", "frames_sink", "flat_file"])
                            if physical != "GRAPHS" else "frames_gen")
    return {"cfg": cfg, "ops": [["stmt", *T.to_json(st)] for st in stmts]}


def exceeded(cfg, stmts):
    """Tables that some single row really exceeds: list of (table, needed, size)."""
    out = []
    graphs = cfg["physical"] == "GRAPHS"
    mp, mn, md = cfg["max_prefixes"], cfg["max_names"], cfg["max_datatypes"]
    need = W.max_needs(stmts, [], prefix_enabled=mp > 0, graphs_type=graphs)
    if mp and need[0] > mp:
        out.append(("prefix", need[0], mp))
    if need[1] > mn:
        out.append(("name", need[1], mn))
    if md and need[2] > md:
        out.append(("datatype", need[2], md))
    return out


def execute(plan, sim):
    cfg = plan["cfg"]
    stmts, _ = nodes.split_ops(plan["ops"])
    over = exceeded(cfg, stmts)
    for t, _, _ in over:
        sim.count("over_" + t)
    key = (repr(sorted(cfg.items())), repr(stmts)) if over else None
    try:
        data = nodes.serialize(cfg, plan["ops"], sim)
    except Exception:  # noqa: BLE001
        sim.count("raised")
        return [], key
    exp = [T.norm_stmt(st) for st in stmts]
    r = refdec.decode_stream(data, True, strict=False)
    got = [tuple(T.norm(t) for t in st) for st in r.statements()] if r.ok else None
    if got == exp:
        sim.count("decoded_ok")
        return [], key
    tables = sorted({t for t, _, _ in over})
    sig = {"tables": tables, "undersized": bool(over)}
    if not r.ok:
        msg = f"written bytes are invalid for the reference decoder: {r.error['cls']}: {r.error['msg']}"
    else:
        msg = f"decodes to other data: {c01.first_diff(exp, got)}"
    return [{"clause": "C18.corrupt", "sig": sig,
             "msg": f"no error raised; tables exceeded by one statement: {over}; {msg}"}], key
