"""C20 - a rejected statement never poisons the rest of the stream."""
from __future__ import annotations

import copy
import io

from checks import c01, c02
from simkit import nodes, refdec, wire, workload as W
from simkit import terms as T
from simkit.kernel import HarnessError

ID = "C20"
LEVEL = "fault_enumeration"
TECHNIQUE = ('deterministic simulation with reject fault enumeration: every (position, slot, cause) of each seeded statement sequence injected into a fresh stream driven statement by statement (catch-and-continue caller, optional re-enroll); oracle = reference decoding of what was written')
LEVEL_NOTE = ('sequences sampled by seed, injection points enumerated per sequence')
OPTIMIZED_EVERY = 25      # every 25th run is executed in a child interpreter started with python -O
PBPY_EVERY = 50           # every 50th run (offset 6) is executed with protobuf's pure-Python backend
COMPILED_EVERY = 25       # every 25th run (offset 12) is executed in a child that imports a mypyc build of the tree
RUNS = {"quick": 6000, "thorough": 100000}
CHUNK = 10
RULE = ("for each seeded statement sequence (TripleStream / QuadStream / GraphStream of both integrations, driven "
        "statement by statement) EVERY (position, slot in {s,p,o,g,nested}, cause) at which a statement can be made "
        "unencodable is injected in a fresh stream; causes: unsupported term object, typed literal while the datatype "
        "table is disabled, statement tuple too short, namespace declaration with a non-string IRI; the caller catches and continues; evaluations = injected "
        "faults; non-trivial = the rejected statement is neither first nor last; distinct = distinct (sequence, "
        "position, slot, cause)")
COMPONENTS = {"real": ["pyjelly Stream.triple/quad/graph, TermEncoder, LookupEncoder, flows of both integrations"],
              "stub": ["caller loop with reject faults", "reader: simkit.refdec"]}
ASSUMPTIONS = ["sequences are sampled by seed; injection points are enumerated per sequence",
               "for GraphStream.graph() a failure inside a graph may keep or drop the triples of that graph that were "
               "accepted before the failing one"]
EXHAUSTIVE_NOTE = "per sequence: every position x slot x applicable cause"
PROBES = ["generator_entry_faults", "generator_entry_raised", "cause_none_term", "reenroll_after_reject", "cause_bad_namespace", "cause_unsupported", "cause_typed_literal", "cause_short_tuple", "cause_table_overflow", "table_overflow_rejected", "slot_nested", "slot_g",
          "stream_refused_later_use", "no_trace", "physical_GRAPHS", "integration_rdflib"]
SHRINK_LISTS = ["ops"]


def generate(rng, run, tier):
    integration = rng.choice(["generic", "generic", "rdflib"])
    physical = rng.choice(["TRIPLES", "QUADS", "GRAPHS"])
    dt_off = rng.random() < 0.5
    stmts, flags, sizes, _ = c01.gen_workload(rng, physical, rdflib_safe=integration == "rdflib", max_n=10)
    if dt_off:
        # no typed literals among the good statements
        stmts = [tuple(strip_dt(t) for t in st) for st in stmts]
    mp, mn, md = c01.fit_tables(rng, stmts, [], sizes, physical)
    md = 0 if dt_off else max(md, 2, W.max_needs(stmts)[2])
    cfg = nodes.default_cfg(integration=integration, physical=physical, logical=1 if physical == "TRIPLES" else 2,
                            frame_size=rng.choice([1, 2, 3, 250]), max_names=max(mn, 12), max_prefixes=mp and max(mp, 4),
                            max_datatypes=md, generalized=flags["generalized"], rdf_star=flags["rdf_star"])
    # half of the streams have namespace declarations enabled (version 2): only there can a declaration be
    # *encoded* and fail while encoding - with the option off Stream.namespace_declaration refuses up front
    cfg["ns"] = rng.random() < 0.5
    return {"cfg": cfg, "ops": [["stmt", *T.to_json(st)] for st in stmts[:rng.choice([2, 3, 5, 8, 10])]],
            "bad_lex": rng.choice(["1", "x", ""]), "only": None}


def strip_dt(t):
    if t[0] == "lit" and t[3]:
        return ("lit", t[1], None, None)
    if t[0] == "triple":
        return ("triple", strip_dt(t[1]), strip_dt(t[2]), strip_dt(t[3]))
    return t


class Alien:
    """An object no integration can encode."""

    def __repr__(self):
        return "<alien term>"


def injections(cfg, stmts):
    """All (position, slot, cause) applicable to this sequence."""
    out = []
    arity = 3 if cfg["physical"] == "TRIPLES" else 4
    generic = cfg["integration"] == "generic"
    for pos in range(len(stmts)):
        st = stmts[pos]
        for si in range(arity):
            slot = "spog"[si]
            out.append((pos, slot, "unsupported"))
            out.append((pos, slot, "none_term"))
            if cfg["max_datatypes"] == 0 and (slot == "o" or (generic and cfg["generalized"])):
                if not (slot == "g" and not generic):
                    out.append((pos, slot, "typed_literal"))
        if generic and cfg["rdf_star"]:
            out.append((pos, "nested", "unsupported"))
            if cfg["max_datatypes"] == 0:
                out.append((pos, "nested", "typed_literal"))
        out.append((pos, "-", "short_tuple"))
        # a statement that one of the tables cannot hold at once (C18's refusal) is a rejection like any other -
        # and the one that leaves most behind: entries assigned for its first terms, rows never sent
        if generic and cfg["rdf_star"] and max(cfg["max_names"], cfg["max_prefixes"]) < 150:
            out.append((pos, "nested", "table_overflow"))
        if generic and cfg["generalized"] and 0 < cfg["max_datatypes"] < arity:
            out.append((pos, "dt", "table_overflow"))
        if cfg.get("ns"):
            out.append((pos, "-", "bad_namespace"))
    return out


def bad_statement(cfg, st, slot, cause, lex):
    """Integration-level objects of the statement with one slot made unencodable."""
    conv = T.to_generic if cfg["integration"] == "generic" else T.to_rdflib
    objs = [conv(t) for t in st]
    if cause == "short_tuple":
        return objs[:2]
    if cause == "table_overflow":
        return overflowing_statement(cfg, objs, slot, conv)
    if cause == "unsupported":
        bad = Alien()
    elif cause == "none_term":
        bad = None          # the most common unsupported "term": a missing value
    else:
        bad = conv(("lit", lex, None, "http://dt.example/rejected"))
    if slot == "nested":
        from pyjelly.integrations.generic import generic_sink as gs
        bad = gs.Triple(conv(("iri", "http://e/q")), conv(("iri", "http://e/p")), bad)
        idx = 2
    else:
        idx = "spog".index(slot)
    objs[idx] = bad
    return objs


def overflowing_statement(cfg, objs, slot, conv):
    """The statement with its object replaced so that it needs more entries of one table than the table has."""
    if slot == "dt":
        # every slot a literal of its own datatype: arity distinct datatypes > max_datatypes
        objs = [conv(("lit", f"v{i}", None, f"http://dt.example/overflow{i}")) for i in range(len(objs))]
        return objs
    from pyjelly.integrations.generic import generic_sink as gs
    k = max(cfg["max_names"], cfg["max_prefixes"]) + 2
    inner = conv(("iri", "http://ovf0.example/n0"))
    for i in range(1, k, 2):
        inner = gs.Triple(conv(("iri", f"http://ovf{i}.example/n{i}")), conv(("iri", f"http://ovf{i + 1}.example/n{i + 1}")), inner)
    objs = list(objs)
    objs[2] = inner
    return objs


def drive(cfg, stmts, inj, lex, reenroll=False):
    """Feed the statements one by one, injecting the bad statement before position inj[0].
    Returns (bytes, info)."""
    pos, slot, cause = inj
    stream = nodes.make_stream(cfg)
    conv = T.to_generic if cfg["integration"] == "generic" else T.to_rdflib
    from pyjelly.serialize.ioutils import write_delimited
    out = io.BytesIO()
    info = {"rejected": False, "exc": None, "later_raised": 0, "later_ok": 0, "accepted": [], "bytes_at_fault": 0,
            "partial": []}

    def emit(fr):
        if fr is not None:
            write_delimited(fr, out)

    stream.enroll()
    graphs = cfg["physical"] == "GRAPHS"
    quads = cfg["physical"] == "QUADS"

    def submit(objs, neutral):
        """Submit one statement; returns True if accepted."""
        if graphs:
            g = objs[3] if len(objs) > 3 else None
            triples = [objs[:3]] if len(objs) >= 3 else [objs]
            for fr in stream.graph(g, triples):
                emit(fr)
        elif quads:
            emit(stream.quad(objs))
        else:
            emit(stream.triple(objs))
        return True

    for i, st in enumerate(stmts):
        if i == pos:
            info["bytes_at_fault"] = len(out.getvalue())
            try:
                if cause == "bad_namespace":
                    # a namespace declaration whose IRI is not a string
                    stream.namespace_declaration("p", None)
                else:
                    submit(bad_statement(cfg, st, slot, cause, lex), None)
                info["rejected"] = False
            except BaseException as e:  # noqa: BLE001
                if not isinstance(e, Exception) and not isinstance(e, StopIteration):
                    raise
                info["rejected"] = True
                info["exc"] = type(e).__name__
        try:
            if reenroll and info["rejected"]:
                stream.enroll()      # what stream_frames() does at the start of every batch
            submit([conv(t) for t in st], st)
            info["accepted"].append(st)
            if info["rejected"] or i > pos:
                info["later_ok"] += 1
        except Exception as e:  # noqa: BLE001
            if i >= pos and info["rejected"]:
                info["later_raised"] += 1
                info["later_exc"] = type(e).__name__
            else:
                raise HarnessError(f"good statement {i} raised before any fault: {type(e).__name__}: {e}")
    try:
        emit(stream.flow.to_stream_frame())
    except Exception as e:  # noqa: BLE001
        info["flush_exc"] = type(e).__name__
    return out.getvalue(), info


def execute(plan, sim):
    import warnings
    warnings.simplefilter("ignore")
    cfg = plan["cfg"]
    stmts, _ = nodes.split_ops(plan["ops"])
    sim.count("physical_" + cfg["physical"])
    sim.count("integration_" + cfg["integration"])
    v = []
    seen = set()
    nontrivial = 0
    todo = injections(cfg, stmts)
    idx = plan.get("run", 0)
    for inj in todo:
        pos, slot, cause = inj
        sim.count("evaluations")
        sim.count("cause_" + cause)
        sim.fault("reject_" + cause)
        if slot in ("nested", "g"):
            sim.count("slot_" + slot)
        if 0 < pos < len(stmts) - 1:
            nontrivial += 1
        reenroll = bool(idx % 2)
        idx += 1
        data, info = drive(cfg, stmts, inj, plan["bad_lex"], reenroll=reenroll)
        if reenroll:
            sim.count("reenroll_after_reject")
        sim.event("inject", pos, slot, cause, reenroll, info["rejected"], info["exc"], info["later_ok"],
                  info["later_raised"], len(data))
        if cause == "table_overflow" and info["rejected"]:
            sim.count("table_overflow_rejected")
        if not info["rejected"] and cause != "none_term":
            continue            # the statement was not rejected: nothing to judge here
        if not info["rejected"]:
            # an unencodable statement (None is no RDF term) that is NOT rejected must not corrupt the output either
            sim.count("unencodable_not_rejected")
            r0 = refdec.decode_stream(data, True, strict=False) if data else None
            if r0 is None or not r0.ok:
                v.append({"clause": "C20.unencodable_statement_accepted", "sig": {"cause": cause, "physical": cfg["physical"]},
                          "msg": f"fault (pos={pos}, slot={slot}, cause={cause}): the statement was accepted without an "
                                 f"exception and the output does not decode: {r0.error if r0 is not None else 'no bytes'}"})
            continue
        sig = {"cause": cause, "physical": cfg["physical"]}
        loc = f"fault (pos={pos}, slot={slot}, cause={cause}, exc={info['exc']})"
        # (a) what had been written before the failure stays a valid prefix
        before = data[:info["bytes_at_fault"]]
        rb = refdec.decode_stream(before, True, strict=False) if before else None
        if rb is not None and not rb.ok:
            v.append({"clause": "C20.prefix_invalid", "sig": sig, "msg": f"{loc}: bytes written before the failure do "
                      f"not decode: {rb.error}"})
        r = refdec.decode_stream(data, True, strict=False) if data else None
        got = [tuple(T.norm(t) for t in st) for st in r.statements()] if r is not None and r.ok else None
        if cfg["integration"] == "generic":
            accepted = [T.norm_stmt(s) for s in info["accepted"]]
        else:
            accepted = [c02_norm(s) for s in info["accepted"]]
        refused = info["later_ok"] == 0 and info["later_raised"] > 0
        if refused:
            sim.count("stream_refused_later_use")
        if r is None:
            if accepted:
                v.append({"clause": "C20.nothing_written", "sig": sig, "msg": f"{loc}: no bytes"})
        elif not r.ok:
            v.append({"clause": "C20.corrupt_after_reject", "sig": {**sig, "how": "undecodable"},
                      "msg": f"{loc}: stream kept accepting statements but the output no longer decodes: "
                             f"{r.error['cls']}: {r.error['msg']}"})
        elif got != accepted:
            v.append({"clause": "C20.corrupt_after_reject", "sig": {**sig, "how": "other_data"},
                      "msg": f"{loc}: {len(accepted)} statements accepted, output decodes to {len(got)}: first "
                             f"difference {c01.first_diff(accepted, got)}"})
        else:
            sim.count("no_trace")
        if v and len(v) >= 3:
            break
    v.extend(generator_entry(plan, sim, cfg, stmts))
    # one violation per distinct signature per run is enough
    uniq = {}
    for x in v:
        uniq.setdefault(repr(sorted(x["sig"].items())) + x["clause"], x)
    key = (repr(sorted(cfg.items())), repr(stmts)) if nontrivial else None
    return list(uniq.values()), key


def generator_entry(plan, sim, cfg, stmts):
    """The same faults through the entry point that takes a statement *iterator* (stream_frames over a generator):
    the call must raise, or write every good statement - never return normally having dropped the rest of the
    input (a StopIteration escaping inside a compiled generator ends it silently)."""
    from pyjelly.serialize.ioutils import write_delimited
    v = []
    if cfg["physical"] == "GRAPHS" or len(stmts) < 2:
        return v
    conv = T.to_generic if cfg["integration"] == "generic" else T.to_rdflib
    m = nodes.integ_mod(cfg)
    arity = 3 if cfg["physical"] == "TRIPLES" else 4
    pos = len(stmts) // 2
    for cause in ("short_tuple", "short_statement_object", "unsupported"):
        objs = [conv(t) for t in stmts[pos]]
        if cause == "short_tuple":
            bad = tuple(objs[:arity - 1])
        elif cause == "short_statement_object":
            if cfg["integration"] != "generic" or arity != 4:
                continue
            from pyjelly.integrations.generic import generic_sink as gs
            bad = gs.Triple(*objs[:3])            # a triple in a sequence of quads
        else:
            bad = (*objs[:2], Alien(), *objs[3:])
        sim.count("generator_entry_faults")
        sim.fault("reject_" + cause)

        def source(bad=bad):
            for i, st in enumerate(stmts):
                if i == pos:
                    yield bad
                yield nodes.conv_stmt(cfg)(st)
        out = io.BytesIO()
        exc = None
        try:
            for fr in m.stream_frames(nodes.make_stream(cfg), source()):
                write_delimited(fr, out)
        except Exception as e:  # noqa: BLE001
            exc = e
        sim.event("generator_entry", cause, type(exc).__name__ if exc else None, len(out.getvalue()))
        if exc is not None:
            sim.count("generator_entry_raised")
            continue
        data = out.getvalue()
        r = refdec.decode_stream(data, True, strict=False) if data else None
        n_got = len(list(r.statements())) if r is not None and r.ok else 0
        if n_got < len(stmts):
            v.append({"clause": "C20.generator_entry_silently_truncated", "sig": {"cause": cause, "physical": cfg["physical"]},
                      "msg": f"stream_frames(stream, <iterator of {len(stmts)} good statements with a {cause} at position "
                             f"{pos}>) returned normally, no exception; the {len(data)} bytes written hold {n_got} statements"})
    return v


def c02_norm(st):
    if len(st) == 3:
        return tuple(T.from_rdflib(T.to_rdflib(t)) for t in st)
    return (*(T.from_rdflib(T.to_rdflib(t)) for t in st[:3]), T.from_rdflib(T.to_rdflib(st[3]), graph_slot=True))
