"""C16 - spec-violating streams are rejected, never turned into fabricated data."""
from __future__ import annotations

import copy
import io

from checks import c01, c04
from simkit import nodes, refdec, refenc, wire, workload as W
from simkit import terms as T
from simkit.kernel import HarnessError

ID = "C16"
LEVEL = "fault_enumeration"
TECHNIQUE = ('deterministic simulation with peer_violation fault enumeration: one catalogued spec violation injected at every applicable (row, term path) of each seeded valid stream via the independent codec; oracle = raise, and yielded items are a prefix of the reference reading')
LEVEL_NOTE = ('streams sampled by seed, injection positions enumerated per stream and class; mutants the reference decoder still accepts are discarded')
OPTIMIZED_EVERY = 25      # every 25th run is executed in a child interpreter started with python -O
PBPY_EVERY = 50           # every 50th run (offset 6) is executed with protobuf's pure-Python backend
COMPILED_EVERY = 25       # every 25th run (offset 12) is executed in a child that imports a mypyc build of the tree
RUNS = {"quick": 2500, "thorough": 40000}
CHUNK = 8
RULE = ("for each seeded valid stream (reference encoder) one violation of each catalogued class is injected at EVERY "
        "position where it applies (re-encoding one row with the independent codec); the reference decoder must "
        "confirm the mutant invalid and name the offending row (else it is discarded as benign); oracle: the real "
        "parser raises and what it yielded before is a prefix of what the rows before the offending one denote; "
        "evaluations = confirmed-invalid mutants parsed; non-trivial = offending row is not the first statement row; "
        "distinct = distinct (stream, class, position)")
COMPONENTS = {"real": ["pyjelly flat parsers of both integrations, Decoder, LookupDecoder, adapters", "protobuf upb"],
              "stub": ["peer: simkit.refenc + injected violation", "oracle: simkit.refdec"]}
ASSUMPTIONS = ["streams are sampled by seed; injection positions are enumerated per stream and class",
               "a mutant the reference decoder still accepts is benign and not judged"]
EXHAUSTIVE_NOTE = "per stream: every applicable (class, row, term path) position"
CLASSES = ["entry_id_beyond_size", "name_ref_beyond_size", "prefix_ref_beyond_size", "datatype_ref_beyond_size",
           "ref_unfilled_slot", "datatype_zero", "datatype_table_disabled", "prefix_table_disabled",
           "repeated_without_previous", "repeated_in_quoted", "missing_options", "row_kind_forbidden",
           "triple_outside_graph", "bad_version", "bad_physical_type"]
PROBES = ["class_" + c for c in CLASSES] + ["benign_discarded", "rdflib_reader"]
SHRINK_LISTS = ["items"]


def generate(rng, run, tier):
    integration = rng.choice(["generic", "generic", "rdflib"])
    plan = c04.gen_stream_plan(rng, integration == "rdflib")
    plan["integration"] = integration
    plan["items"] = plan["items"][:rng.choice([2, 4, 8, 16])]
    if rng.random() < 0.25:
        # streams with a disabled datatype / prefix table (classes 'table disabled')
        o = plan["opts"]
        if rng.random() < 0.5:
            o["max_prefix_table_size"] = 0
            # whole IRIs are names now: the name table was sized for split IRIs, re-fit it to what one row needs
            stmts_ = [T.from_json(i) for i in plan["items"] if i[0] != "ns"]
            nss_ = [(i[1], i[2]) for i in plan["items"] if i[0] == "ns"]
            need_n = W.max_needs(stmts_, nss_, prefix_enabled=False, graphs_type=o["physical_type"] == 3)[1]
            o["max_name_table_size"] = max(o["max_name_table_size"], need_n, 8)
        else:
            o["max_datatype_table_size"] = 0
            plan["items"] = [strip_item(i) for i in plan["items"]]
    plan["only"] = None
    return plan


def strip_item(it):
    if it[0] == "ns":
        return it
    from checks.c20 import strip_dt
    return T.to_json(tuple(strip_dt(T.from_json(t)) for t in it))


# ------------------------------------------------------------------ term paths inside a statement row
def term_paths(row):
    """Yield (path, term) for every term in a triple/quad/graph_start/namespace row (nested too)."""
    k = row[0]
    if k in ("triple", "quad"):
        for i in range(1, len(row)):
            if row[i] is not None:
                yield from _walk((i,), row[i])
    elif k == "graph_start" and row[1] is not None:
        yield from _walk((1,), row[1])
    elif k == "namespace" and row[2] is not None:
        yield (2,), row[2]


def _walk(path, t):
    yield path, t
    if t[0] == "triple":
        for j in (1, 2, 3):
            if t[j] is not None:
                yield from _walk((*path, j), t[j])


def set_path(obj, path, value):
    lst = list(obj)
    if len(path) == 1:
        lst[path[0]] = value
    else:
        lst[path[0]] = set_path(obj[path[0]], path[1:], value)
    return tuple(lst)


def mutants(rows, opts):
    """Yield (class, (frame, row), description, new_row | None(delete) | [rows] (replace by several))."""
    sizes = {"name": opts["max_name_table_size"], "prefix": opts["max_prefix_table_size"],
             "datatype": opts["max_datatype_table_size"]}
    pt = opts["physical_type"]
    first_stmt = True
    assigned = {"name": 0, "prefix": 0, "datatype": 0}
    filled = {"name": set(), "prefix": set(), "datatype": set()}
    last = {"name": 0, "prefix": 0, "datatype": 0}

    def unfilled(kind):
        """Slots of table ``kind`` never filled so far: the last slot, a gap below the highest filled one,
        and the slot right after the highest filled one."""
        size = sizes[kind]
        out = []
        cands = [size, max(filled[kind], default=0) + 1]
        gaps = [i for i in range(1, max(filled[kind], default=0)) if i not in filled[kind]]
        cands += gaps[:1] + gaps[-1:]
        for c in cands:
            if 1 <= c <= size and c not in filled[kind] and c not in out:
                out.append(c)
        return out
    for fi, ri, row in rows:
        k = row[0]
        pos = (fi, ri)
        if k == "options":
            yield "missing_options", pos, "options row deleted", None
            yield "bad_version", pos, "version 3", ("options", dict(row[1], version=3))
            yield "bad_version", pos, "version 10000", ("options", dict(row[1], version=10000))
            yield "bad_physical_type", pos, "physical type 0", ("options", dict(row[1], physical_type=0, logical_type=0))
            yield "bad_physical_type", pos, "physical type 4", ("options", dict(row[1], physical_type=4, logical_type=0))
            continue
        if k in sizes:
            assigned[k] += 1
            last_before = last[k]
            idx = row[1] or last[k] + 1
            filled[k].add(idx)
            last[k] = idx
            if last_before == sizes[k] and sizes[k]:
                # the implicit form: id 0 = previous id + 1, which overflows once the last slot was assigned
                yield "entry_id_beyond_size", pos, f"{k} entry id 0 after the last slot", (k, 0, row[2])
            yield "entry_id_beyond_size", pos, f"{k} entry id size+1", (k, sizes[k] + 1, row[2])
            yield "entry_id_beyond_size", pos, f"{k} entry id 2^20", (k, 1 << 20, row[2])
            continue
        if k in ("triple", "quad"):
            n = len(row) - 1
            if first_stmt:
                for i in range(1, n + 1):
                    if row[i] is not None:
                        yield "repeated_without_previous", pos, f"first statement slot {i - 1} unset", \
                            set_path(row, (i,), None)
                first_stmt = False
            if pt == 1 and k == "triple":
                yield "row_kind_forbidden", pos, "quad row in a TRIPLES stream", ("quad", row[1], row[2], row[3], ("default",))
                yield "row_kind_forbidden", pos, "graph_start row in a TRIPLES stream", [("graph_start", ("default",)), row]
                yield "row_kind_forbidden", pos, "graph_end row in a TRIPLES stream", [row, ("graph_end",)]
            if pt == 2 and k == "quad":
                yield "row_kind_forbidden", pos, "triple row in a QUADS stream", ("triple", row[1], row[2], row[3])
                yield "row_kind_forbidden", pos, "graph_start row in a QUADS stream", [("graph_start", ("default",)), row]
            if pt == 3 and k == "triple":
                yield "row_kind_forbidden", pos, "quad row in a GRAPHS stream", ("quad", row[1], row[2], row[3], ("default",))
        if k == "graph_start":
            yield "triple_outside_graph", pos, "graph_start deleted", None
            yield "row_kind_forbidden", pos, "graph_start without a graph term", ("graph_start", None)
        if k == "graph_end":
            yield "triple_outside_graph", pos, "triple after graph_end", \
                [row, ("triple", ("bnode", "x"), ("bnode", "y"), ("bnode", "z"))]
        for path, t in term_paths(row):
            if t[0] == "iri":
                yield "name_ref_beyond_size", pos, f"name_id size+1 at {path}", set_path(row, path, ("iri", t[1], sizes["name"] + 1))
                if sizes["prefix"]:
                    yield "prefix_ref_beyond_size", pos, f"prefix_id size+1 at {path}", \
                        set_path(row, path, ("iri", sizes["prefix"] + 1, t[2]))
                else:
                    yield "prefix_table_disabled", pos, f"prefix_id 1 at {path}", set_path(row, path, ("iri", 1, t[2]))
                for slot in unfilled("name"):
                    yield "ref_unfilled_slot", pos, f"name_id -> never filled slot {slot} at {path}", \
                        set_path(row, path, ("iri", t[1], slot))
                if sizes["prefix"]:
                    for slot in unfilled("prefix"):
                        yield "ref_unfilled_slot", pos, f"prefix_id -> never filled slot {slot} at {path}", \
                            set_path(row, path, ("iri", slot, t[2]))
            elif t[0] == "lit":
                yield "datatype_zero", pos, f"datatype 0 at {path}", set_path(row, path, ("lit", t[1], ("dt", 0)))
                if sizes["datatype"]:
                    yield "datatype_ref_beyond_size", pos, f"datatype size+1 at {path}", \
                        set_path(row, path, ("lit", t[1], ("dt", sizes["datatype"] + 1)))
                    for slot in unfilled("datatype"):
                        yield "ref_unfilled_slot", pos, f"datatype -> never filled slot {slot} at {path}", \
                            set_path(row, path, ("lit", t[1], ("dt", slot)))
                else:
                    yield "datatype_table_disabled", pos, f"datatype 1 with disabled table at {path}", \
                        set_path(row, path, ("lit", t[1], ("dt", 1)))
            elif t[0] == "triple":
                for j in (1, 2, 3):
                    yield "repeated_in_quoted", pos, f"quoted triple slot {j - 1} unset at {path}", \
                        set_path(row, (*path, j), None)


def apply(frames, pos, new):
    fi, ri = pos
    out = []
    for i, f in enumerate(frames):
        if i != fi:
            out.append(f)
            continue
        rows = list(f.rows)
        if new is None:
            del rows[ri]
        elif isinstance(new, list):
            rows[ri:ri + 1] = [wire.enc_row(r) for r in new]
        else:
            rows[ri] = wire.enc_row(new)
        out.append(wire.Frame(rows, f.metadata))
    return out


def execute(plan, sim):
    integration = plan["integration"]
    items = c04.items_of(plan)
    opts = plan["opts"]
    # plain encoding (weird=0) so that injected violations are the only deviation; choices still tape driven
    data, frames, stats = refenc.encode(items, opts, sim, plan["knobs"], plan["delimited"])
    base = refdec.decode_stream(data, plan["delimited"], strict=False, keep_rows=True)
    if not base.ok:
        raise HarnessError(f"base stream invalid: {base.error}")
    if integration == "rdflib":
        sim.count("rdflib_reader")
    v = {}
    nontrivial = 0
    idx = -1
    for cls, pos, desc, new in mutants(base.rows_ast, opts):
        idx += 1
        if plan.get("only") is not None and idx != plan["only"]:
            continue
        mframes = apply(frames, pos, new)
        if plan["delimited"]:
            mdata = wire.write_stream(mframes, True)
        else:
            mdata = wire.write_stream(mframes, False)
        ref = refdec.decode_stream(mdata, plan["delimited"], strict=False)
        if ref.ok:
            sim.count("benign_discarded")
            continue
        sim.count("evaluations")
        sim.count("class_" + cls)
        sim.fault("peer_violation_" + cls)
        sim.event("mutant", idx, cls, pos, ref.error["cls"], ref.error["items_before"])
        if ref.error["items_before"] > 0:
            nontrivial += 1
        allowed = [c04.conv_expected(integration, i) for i in ref.items]
        got = []
        exc = None
        try:
            for it in nodes.parse_flat(integration, io.BytesIO(mdata)):
                got.append(it)
        except Exception as e:  # noqa: BLE001
            exc = e
        sig = {"cls": cls, "refcls": ref.error["cls"]}
        where = f"{cls} ({desc}) at frame {pos[0]} row {pos[1]}; reference decoder: {ref.error['cls']} at frame " \
                f"{ref.error['frame']} row {ref.error['row']} after {len(allowed)} items"
        if got != allowed[:len(got)] or len(got) > len(allowed):
            d = c01.first_diff(allowed, got)
            bad = got[d[0]] if d[0] < len(got) else None
            v.setdefault(("fab", cls), {"clause": "C16.fabricated_item", "sig": sig,
                                        "msg": f"{where}; parser yielded item {d[0]} = {bad!r} "
                                               f"({'raised ' + type(exc).__name__ if exc else 'and returned normally'})"})
        elif exc is None:
            v.setdefault(("acc", cls), {"clause": "C16.accepted", "sig": sig,
                                        "msg": f"{where}; parser returned normally with {len(got)} items"})
    key = data if nontrivial else None
    return list(v.values())[:6], key
