"""C11 - streaming: bounded buffering on write, no read-ahead needed on parse."""
from __future__ import annotations

import copy
import io

from checks import c01, c04
from simkit import coop, nodes, refdec, wire
from simkit import terms as T
from simkit.kernel import Deadlock, HarnessError
from simkit.pipe import Pipe, open_frontend

ID = "C11"
LEVEL = "exploration"
TECHNIQUE = ('deterministic simulation, cooperative scheduling of generator pipelines: instrumented input iterator and sink (event-order invariants, closed-loop peer), stall_after faults on the channel, producer/consumer closed loop; deadlock = violation')
LEVEL_NOTE = ('seeded search over stall points and schedules; GraphStream judged on the unambiguous clauses only')
OPTIMIZED_EVERY = 25      # every 25th run is executed in a child interpreter started with python -O
PBPY_EVERY = 50           # every 50th run (offset 6) is executed with protobuf's pure-Python backend
COMPILED_EVERY = 25       # every 25th run (offset 12) is executed in a child that imports a mypyc build of the tree
RUNS = {"quick": 60000, "thorough": 1200000}
RULE = ("three scenario kinds per seed: (write) flat delimited serialization of an instrumented statement iterator, "
        "event-order invariants on pull/frame events plus a closed-loop input that releases statement i+1 only after "
        "the frame completed by statement i was handed over; (stall) a source that delivers frames 1..j (+ a partial "
        "frame j+1) and then stalls; (loop) producer and parser coupled so that frame j+1 is produced only after all "
        "items of frame j were yielded; non-trivial = >=2 frames; distinct = distinct event-log digests")
COMPONENTS = {"real": ["pyjelly serializers (stream_frames, flat_stream_to_frames/_to_file) of both integrations",
                       "pyjelly flat and grouped parsers of both integrations", "protobuf", "io.BufferedReader"],
              "stub": ["instrumented input iterator (pull events, closed-loop gate)", "output sink / byte channel with "
                       "stall_after faults", "frame accounting by simkit.refdec"]}
ASSUMPTIONS = ["GraphStream: only the two unambiguous write-side clauses are enforced (look-ahead of one quad is how "
               "graphs are delimited)", "blocking sources only"]
PROBES = ["unspecified_logical_runs", "explicit_flow_runs", "raw_sink_runs", "write_runs", "stall_runs", "loop_runs", "stall_fired", "stall_partial_next_frame", "frames_ge3",
          "frontend_raw", "frontend_buffered", "physical_GRAPHS", "frame_size_1"]
SHRINK_LISTS = ["ops", "items"]


def generate(rng, run, tier):
    kind = rng.choice(["write", "write", "stall", "stall", "loop"])
    if kind == "stall" and rng.random() < 0.4:
        integration = rng.choice(["generic", "rdflib"])
        plan = c04.gen_stream_plan(rng, integration == "rdflib")
        plan["delimited"] = True
        plan["source"] = "model"
        plan["integration"] = integration
        plan["knobs"]["frame_rows"] = rng.choice([1, 2, 3, 5])
    else:
        integration = rng.choice(["generic", "generic", "rdflib"])
        physical = rng.choice(["TRIPLES", "QUADS", "QUADS", "GRAPHS"]) if kind != "write" else \
            rng.choice(["TRIPLES", "QUADS", "GRAPHS"])
        stmts, flags, sizes, _ = c01.gen_workload(rng, physical, rdflib_safe=integration == "rdflib", max_n=30)
        mp, mn, md = c01.fit_tables(rng, stmts, [], sizes, physical)
        if md == 0:
            from simkit import workload as W
            if W.has_datatypes(stmts):
                md = max(1, W.max_needs(stmts)[2])
        entry = rng.choice(["frames_gen", "frames_gen", "flat_frames", "flat_file"]) if physical != "GRAPHS" else "frames_gen"
        cfg = nodes.default_cfg(
            integration=integration, physical=physical, logical=1 if physical == "TRIPLES" else 2, delimited=True,
            frame_size=rng.choice([1, 1, 2, 3, 4, 5, 8]), max_names=mn, max_prefixes=mp, max_datatypes=md,
            generalized=flags["generalized"], rdf_star=flags["rdf_star"], entry=entry)
        if kind == "write" and entry in ("frames_gen", "flat_frames", "flat_file") and rng.random() < 0.25:
            cfg["logical"] = 0      # the flat logical type is then inferred; frame_size must still be honoured
        if kind == "write" and physical != "GRAPHS" and cfg["logical"] != 0 and rng.random() < 0.3:
            # frame size configured through an explicit flow object; options.frame_size keeps its default
            cfg["flow"] = rng.choice(["FlatTriples" if physical == "TRIPLES" else "FlatQuads", "Bounded"])
            cfg["options_frame_size"] = 250
        plan = {"cfg": cfg, "ops": [["stmt", *T.to_json(st)] for st in stmts], "source": "real",
                "integration": integration, "sink": rng.choice(["bytesio", "raw"])}
    plan["kind"] = kind
    plan["consumer"] = rng.choice(["flat", "flat", "grouped"])
    plan["frontend"] = rng.choice(["raw", "raw", "buffered", "duck", "rwpair", "greedy", "strict", "autoclose"])
    return plan


def simplify(plan):
    for key, val in (("consumer", "flat"), ("frontend", "raw")):
        if plan.get(key) != val:
            p = copy.deepcopy(plan)
            p[key] = val
            yield p


# ------------------------------------------------------------------ write side
class Trace:
    def __init__(self):
        self.ev = []           # ("pull", i) | ("frame", nrows) | ("pull_end",)


def write_side(plan, sim):
    cfg = plan["cfg"]
    stmts, _ = nodes.split_ops(plan["ops"])
    tr = Trace()
    box = []
    state = {"frames": 0, "closed": None, "viol": None}

    def gate(i):
        if state.get("account"):
            state["account"]()
        tr.ev.append(("pull", i, len(box[-1].flow) if box else None))
        cl = state["closed"]
        if cl is not None and i >= 1 and (i - 1) in cl and state["frames"] < cl[i - 1]:
            # closed-loop peer: statement i is released only after the frame completed by i-1 arrived
            state["viol"] = i
            raise Deadlock(f"serializer asked for statement {i} before handing over the frame completed by "
                           f"statement {i - 1}", {"kind": "closed_loop"})

    def run_once():
        tr.ev.clear()
        state["frames"] = 0
        out = io.BytesIO()
        if cfg["entry"] == "flat_file":
            # flat_stream_to_file hides the frames: observe them at the sink. Whatever has reached the sink when
            # the serializer asks for more input is what has been "handed to the caller".
            seen = {"bytes": 0, "frames": 0}
            buf = bytearray()

            def account():
                # complete delimited frames among the bytes written so far
                pos = seen["bytes"]
                while True:
                    try:
                        ln, p2 = wire.dec_varint(bytes(buf), pos)
                    except wire.WireError:
                        break
                    if p2 + ln > len(buf):
                        break
                    nrows = len(wire.dec_frame(bytes(buf[p2:p2 + ln])).rows)
                    tr.ev.append(("frame", nrows))
                    state["frames"] += 1
                    pos = p2 + ln
                seen["bytes"] = pos
            state["account"] = account
            if plan.get("sink") == "raw":
                class RawSink(io.RawIOBase):
                    def writable(s2):
                        return True

                    def write(s2, b):
                        buf.extend(bytes(b))
                        return len(b)
                out_obj = RawSink()
            else:
                class BufSink(io.BytesIO):
                    def write(s2, b):
                        buf.extend(bytes(b))
                        return len(b)
                out_obj = BufSink()
            m = nodes.integ_mod(cfg)
            try:
                m.flat_stream_to_file(nodes.input_gen(cfg, stmts, sim, gate), out_obj, nodes.make_options(cfg))
            finally:
                state["account"] = None
            account()
            out = io.BytesIO(bytes(buf))
        else:
            write = nodes.writer_for(cfg)
            for fr in nodes.frames_iter(cfg, plan["ops"], sim, gate, box):
                tr.ev.append(("frame", len(fr.rows)))
                state["frames"] += 1
                sim.event("frame", len(fr.rows))
                write(fr, out)
        tr.ev.append(("pull_end",))
        return out.getvalue()

    sim.count("write_runs")
    if cfg.get("flow"):
        sim.count("explicit_flow_runs")
    if cfg["logical"] == 0:
        sim.count("unspecified_logical_runs")
    if cfg["entry"] == "flat_file" and plan.get("sink") == "raw":
        sim.count("raw_sink_runs")
    if cfg["frame_size"] == 1:
        sim.count("frame_size_1")
    sim.count("physical_" + cfg["physical"])
    data = run_once()
    ref = refdec.decode_stream(data, True, strict=False)
    if not ref.ok:
        raise HarnessError(f"written stream invalid: {ref.error}")
    n_items = len(ref.items)
    fs = cfg["frame_size"]
    # global row index (1-based count of rows up to and including the statement's own row)
    frame_rows = [len(f.rows) for f in wire.read_stream(data, True)]
    base = [0]
    for n in frame_rows:
        base.append(base[-1] + n)
    rows_upto = [base[f] + r + 1 for f, r in ref.item_pos]
    v = []
    handed = 0
    frames_done = 0
    pulled = -1
    graphs = cfg["physical"] == "GRAPHS"
    ender_frames = {}
    fi = 0
    for f_idx in range(len(frame_rows)):
        idxs = [i for i, (f, _) in enumerate(ref.item_pos) if f == f_idx]
        if idxs:
            ender_frames[idxs[-1]] = f_idx + 1
    for e in tr.ev:
        if e[0] == "pull":
            i = e[1]
            if i >= 1 and i - 1 < len(rows_upto):
                pending = rows_upto[i - 1] - handed
                if graphs:
                    # graphs are materialised before they are encoded (documented unit of consumption is
                    # the graph): judge the rows actually sitting in the flow
                    pending = e[2] if e[2] is not None else 0
                    if handed == 0 and pending <= 1:
                        pulled = i
                        continue      # only the options row waits while the first graph is collected
                elif e[2] is not None and e[2] != pending:
                    raise HarnessError(f"row accounting disagrees with the flow: derived {pending}, flow {e[2]}")
                if pending >= fs:
                    v.append({"clause": "C11.pending_rows", "sig": {"entry": cfg["entry"]},
                              "msg": f"at pull({i}) {pending} rows were pending with frame_size={fs} "
                                     f"(rows encoded {rows_upto[i - 1]}, handed over {handed})"})
                    break
            pulled = i
        elif e[0] == "frame":
            handed += e[1]
            frames_done += 1
            last_items = [i for i, (f, _) in enumerate(ref.item_pos) if f == frames_done - 1]
            if graphs and last_items and pulled > last_items[-1] + 1 and pulled < len(stmts):
                # delimiting graphs needs a look-ahead of one statement, not more
                v.append({"clause": "C11.input_overrun", "sig": {"entry": cfg["entry"], "physical": "GRAPHS",
                                                              "integration": cfg["integration"]},
                          "msg": f"frame {frames_done - 1} ends with statement {last_items[-1]} but input was consumed "
                                 f"up to statement {pulled} when it was handed over (GraphStream: one statement of "
                                 f"look-ahead is inherent, the rest is buffering)"})
                break
            if not graphs:
                if last_items and pulled != last_items[-1]:
                    v.append({"clause": "C11.input_overrun", "sig": {"entry": cfg["entry"]},
                              "msg": f"frame {frames_done - 1} ends with statement {last_items[-1]} but input was "
                                     f"consumed up to statement {pulled} when it was handed over"})
                    break
    if len(frame_rows) >= 3:
        sim.count("frames_ge3")
    if not v and not graphs:
        # closed-loop run
        state["closed"] = ender_frames
        try:
            data2 = run_once()
            if data2 != data:
                v.append({"clause": "C11.closed_loop_differs", "sig": {}, "msg": "closed-loop output differs"})
        except Deadlock as e:
            v.append({"clause": "C11.write_deadlock", "sig": {"entry": cfg["entry"]}, "msg": str(e)})
        state["closed"] = None
    return v, (len(frame_rows) >= 2)


# ------------------------------------------------------------------ parse side: stall
def stall_side(plan, sim):
    sim.count("stall_runs")
    if plan["source"] == "real":
        cfg = dict(plan["cfg"])
        if cfg["entry"] in ("flat_file",):
            cfg["entry"] = "flat_frames"
        data = nodes.serialize_input(cfg, plan["ops"], None)
    else:
        data, _, _, _ = c04.build_stream(plan, sim)
    bounds = wire.split_delimited(data)
    ref = refdec.decode_stream(data, True, strict=False)
    if not ref.ok:
        raise HarnessError(f"stream invalid: {ref.error}")
    nf = len(bounds)
    j = 1 + sim.choose(nf, "stall_frame")          # frames 1..j are delivered completely
    end_j = bounds[j - 1][1]
    extra = 0
    if j < nf:
        flen = bounds[j][1] - bounds[j][0]
        if sim.flip(1, 2, "partial"):
            extra = sim.choose(flen, "partial_bytes")   # 0..flen-1: frame j+1 stays incomplete
            if extra:
                sim.count("stall_partial_next_frame")
    stall_at = end_j + extra
    integration = plan["integration"]
    grouped = plan["consumer"] == "grouped"
    need_items = sum(len(ref.frames_items[f]) for f in range(j))
    if grouped:
        # sinks needed = up to the last of frames 1..j that carries items (the property speaks of statements)
        need_items = max([f + 1 for f in range(j) if ref.frames_items[f]], default=0)
    fe = plan["frontend"]
    sim.count("frontend_" + fe)
    pipe = Pipe(sim, data)
    pipe.cut_at = None
    state = {"limit": stall_at, "fired": False, "viol": None}
    got = []

    orig_available = pipe.available

    def available():
        end = min(len(pipe.buf), state["limit"])
        return max(0, end - pipe.rpos)
    pipe.available = available

    def demand():
        # the source has stalled: everything delivered so far must already have been yielded
        if state["fired"]:
            return False
        state["fired"] = True
        sim.fault("stall_after")
        sim.event("stall", stall_at, len(got))
        if len(got) < need_items:
            state["viol"] = len(got)
        state["limit"] = len(data)      # release the stall so that the run can finish
        return True
    pipe.demand = demand
    pipe.eof = False

    def at_end():
        return state["limit"] >= len(data) and pipe.rpos >= len(pipe.buf)
    pipe.at_end = at_end
    fobj, _ = open_frontend(fe, sim, pipe=pipe, policy="safe")
    pipe.read_cap = 4 * len(data) + 64
    err = None
    try:
        gen = nodes.parse_grouped(integration, fobj) if grouped else nodes.parse_flat(integration, fobj)
        for it in gen:
            got.append(it)
            sim.event("item", len(got))
    except Exception as e:  # noqa: BLE001
        err = e
    v = []
    if state["fired"]:
        sim.count("stall_fired")
    if state["viol"] is not None:
        what = "sinks" if grouped else "items"
        v.append({"clause": "C11.read_ahead_required", "sig": {"frontend": fe, "consumer": plan["consumer"]},
                  "msg": f"source stalled after byte {stall_at} (frames 1..{j} complete = {need_items} {what}) but "
                         f"the parser asked for more bytes having yielded only {state['viol']} {what}"})
    elif err is not None:
        v.append({"clause": "C11.parse_raised", "sig": {"exc": type(err).__name__},
                  "msg": f"valid stream, parser raised {type(err).__name__}: {err}"})
    if nf >= 3:
        sim.count("frames_ge3")
    return v, nf >= 2


# ------------------------------------------------------------------ parse side: closed loop with the real writer
def loop_side(plan, sim):
    sim.count("loop_runs")
    cfg = dict(plan["cfg"])
    if cfg["entry"] == "flat_file":
        cfg["entry"] = "flat_frames"
    integration = plan["integration"]
    grouped = plan["consumer"] == "grouped"
    fe = plan["frontend"]
    sim.count("frontend_" + fe)
    sched = coop.Scheduler(sim)
    pipe = Pipe(sim)
    fobj, _ = open_frontend(fe, sim, pipe=pipe, policy="safe")
    produced = {"items": 0, "frames": 0, "last_item_frame": 0}
    got = []

    def on_frame(fi, fr):
        produced["frames"] += 1
        for row in fr.rows:
            if row.WhichOneof("row") in ("triple", "quad", "namespace"):
                produced["items"] += 1
                produced["last_item_frame"] = produced["frames"]
    prod = sched.spawn("P", coop.producer_steps(sim, cfg, plan["ops"], pipe, on_frame=on_frame))
    state = {"viol": None}

    def demand():
        need = produced["last_item_frame"] if grouped else produced["items"]
        if len(got) < need and state["viol"] is None:
            state["viol"] = (len(got), need, produced["frames"])
            sim.fault("stall_after")
            return False            # the peer will not send frame j+1 before frame j was consumed
        return sched.step(prod)
    pipe.demand = demand
    err = None
    try:
        gen = nodes.parse_grouped(integration, fobj) if grouped else nodes.parse_flat(integration, fobj)
        for it in gen:
            got.append(it)
            sim.event("item", len(got))
    except Deadlock as e:
        err = e
    except Exception as e:  # noqa: BLE001
        err = e
    v = []
    if state["viol"] is not None:
        g, need, fr = state["viol"]
        v.append({"clause": "C11.read_ahead_required", "sig": {"frontend": fe, "consumer": plan["consumer"]},
                  "msg": f"closed loop: after {fr} frames ({need} {'sinks' if grouped else 'items'}) the parser "
                         f"demanded more bytes having yielded only {g}"})
    elif err is not None:
        v.append({"clause": "C11.parse_raised", "sig": {"exc": type(err).__name__},
                  "msg": f"closed loop raised {type(err).__name__}: {err}"})
    else:
        stmts, _ = nodes.split_ops(plan["ops"])
        if not grouped and len(got) != len(stmts):
            v.append({"clause": "C11.loop_lost_items", "sig": {}, "msg": f"{len(stmts)} in, {len(got)} out"})
    if produced["frames"] >= 3:
        sim.count("frames_ge3")
    return v, produced["frames"] >= 2


def execute(plan, sim):
    import warnings
    warnings.simplefilter("ignore")
    kind = plan["kind"]
    if kind == "write":
        v, nt = write_side(plan, sim)
    elif kind == "stall":
        v, nt = stall_side(plan, sim)
    else:
        v, nt = loop_side(plan, sim)
    return v, (sim.digest() if nt else None)
