"""C08 - delimited vs non-delimited framing is always detected correctly."""
from __future__ import annotations

import copy
import io

from checks import c01, c04, c09
from simkit import nodes, refdec, refenc, wire
from simkit import terms as T
from simkit.kernel import HarnessError
from simkit.pipe import open_frontend

ID = "C08"
LEVEL = "exploration"
TECHNIQUE = ('deterministic simulation: header lab of the reference encoder (lengths landed on the 0x0A coincidences) + both-modes differential through every source front end with tape-decided reads')
LEVEL_NOTE = ('seeded sampling of the reachable 3-byte headers; the classifier itself is a pure function, the simulator supplies real headers and the channel')
OPTIMIZED_EVERY = 25      # every 25th run is executed in a child interpreter started with python -O
PBPY_EVERY = 50           # every 50th run (offset 6) is executed with protobuf's pure-Python backend
COMPILED_EVERY = 25       # every 25th run (offset 12) is executed in a child that imports a mypyc build of the tree
RUNS = {"quick": 60000, "thorough": 1200000}
RULE = ("(header) first three bytes of streams produced in both modes by the real writer and by the reference encoder "
        "over a header lab (stream-name length, table sizes, logical type, version, first-frame content chosen to land "
        "first-frame and first-row lengths on and around 10, 127/128, 16383/16384 and up to 2^21) must be classified "
        "as the mode they were written in; (differential) the same content written in both modes parses to the same "
        "result through every source front end, including content larger than 64 KiB; non-trivial = header with a "
        "0x0A in byte 1 or 2 position or multi-byte first length; distinct = distinct (mode, 3-byte header, lengths)")
COMPONENTS = {"real": ["parse.ioutils.delimited_jelly_hint / get_options_and_frames", "write_delimited / write_single",
                       "all parse entry points"],
              "stub": ["writer in the header lab: simkit.refenc", "byte sources"]}
ASSUMPTIONS = ["streams whose first frame is empty or starts with a row (the property's domain)",
               "a pure function of three bytes: seeded sampling of its reachable inputs, no exhaustive claim"]
PROBES = ["preamble_runs", "first_frame_len_10", "first_row_len_10", "header_0A0A", "varint2_first_len", "varint3_first_len",
          "leading_empty_frame", "content_gt_64k", "real_writer_headers", "model_headers", "differential_runs"]
SHRINK_LISTS = ["ops", "items"]


def generate(rng, run, tier):
    kind = rng.choice(["header", "header", "differential"])
    if kind == "header":
        names = rng.choice([8, 8, 16, 127, 128, 4096])
        prefixes = rng.choice([0, 0, 1, 16, 200])
        datatypes = rng.choice([0, 0, 1, 4])
        physical = rng.choice([1, 2, 3])
        logical = rng.choice([0, 0] + ([1, 3, 13] if physical == 1 else [2, 4, 14, 114]))
        version = rng.choice([1, 1, 2])
        name = "x" * rng.choice([0, 0, 0, 1, 2, 3, 4, 5, 6, 7, 8, 110, 111, 112, 113, 114, 115, 120, 130])
        if rng.random() < 0.1:
            name = "é" * rng.randint(0, 6)
        opts = refenc.make_opts(physical, logical, names, prefixes, datatypes, version, name)
        n = rng.choice([0, 1, 1, 2, 5])
        big = rng.random()
        lex_len = 0
        if big < 0.08:
            lex_len = rng.choice([100, 110, 16300, 16350, 16384, 70000])
        elif big < 0.09:
            lex_len = 1 << 21
        items = []
        for i in range(n):
            o = ["lit", "L" * lex_len if (i == 0 and lex_len) else f"v{i}", None, None]
            s = ["bnode", "b"] if prefixes == 0 and rng.random() < 0.5 else ["iri", f"http://e/n{i}"]
            st = [s, ["iri", "http://e/p"], o]
            if physical != 1:
                st.append(["default"])
            items.append(st)
        knobs = {"weird": 0, "frame_rows": rng.choice([1, 1, 2, 100]), "leading_empty": False}
        return {"kind": kind, "items": items, "opts": opts, "knobs": knobs,
                "lead_empty": rng.random() < 0.1}
    if rng.random() < 0.5:
        plan = c01.gen_plan(rng, run, tier)
        plan["source"] = "real"
        plan["integration"] = "generic"
        cfg = plan["cfg"]
        cfg["entry"] = rng.choice(["frames_gen", "frames_sink"])
        cfg["logical"] = 1 if cfg["physical"] == "TRIPLES" else 2
        if rng.random() < 0.08:
            # content larger than 64 KiB in the single frame
            plan["ops"] = plan["ops"][:6] + [["stmt", ["bnode", "big"], ["iri", "http://e/p"],
                                              ["lit", "B" * rng.choice([66000, 140000]), None, None]]
                                             + ([["default"]] if cfg["physical"] != "TRIPLES" else [])] + plan["ops"][6:12]
    else:
        integration = rng.choice(["generic", "generic", "rdflib"])
        plan = c04.gen_stream_plan(rng, integration == "rdflib")
        plan["source"] = "model"
        plan["integration"] = integration
    plan["kind"] = kind
    if plan["source"] == "real" and rng.random() < 0.3:
        # row lengths around the 1-byte/2-byte varint boundary (options row of exactly 127/128/129 bytes ...)
        plan["cfg"]["stream_name"] = "n" * rng.randint(95, 130)
    plan["preamble"] = rng.choice([0, 0, 0, 1, 5, 8191])
    plan["consumer"] = rng.choice(["flat", "flat", "grouped", "to_graph", "plugin"])
    plan["frontend"] = rng.choice(["bytesio", "raw", "buffered", "seekable_buffered", "gzip", "duck", "rwpair"])
    plan["policy"] = "tape"
    return plan


def hint(header: bytes) -> bool:
    from pyjelly.parse.ioutils import delimited_jelly_hint
    return delimited_jelly_hint(header)


def header_side(plan, sim):
    sim.count("model_headers")
    items = c04.items_of(plan)
    v = []
    keys = set()
    for delimited in (True, False):
        rows, ends, stats = refenc.encode_rows(items, plan["opts"], sim, plan["knobs"])
        frames = refenc.frame_up(rows, sim, plan["knobs"], opts_row=rows[0], delimited=delimited)
        if delimited and plan.get("lead_empty"):
            frames.insert(0, wire.Frame([]))
            sim.count("leading_empty_frame")
        data = wire.write_stream(frames, delimited)
        r = refdec.decode_stream(data, delimited, strict=False)
        if not r.ok:
            raise HarnessError(f"header lab stream invalid: {r.error}")
        hdr = data[:3]
        first_frame_len = len(frames[0].encode())
        first_row_len = len(frames[0].rows[0]) if frames[0].rows else (len(rows[0]))
        if delimited and first_frame_len == 10:
            sim.count("first_frame_len_10")
        if not delimited and first_row_len == 10:
            sim.count("first_row_len_10")
        if hdr[:2] == b"\x0a\x0a":
            sim.count("header_0A0A")
        if delimited and 128 <= first_frame_len < 16384:
            sim.count("varint2_first_len")
        if delimited and first_frame_len >= 16384:
            sim.count("varint3_first_len")
        sim.event("header", delimited, hdr.hex(), first_frame_len, first_row_len)
        got = hint(hdr)
        if got != delimited:
            v.append({"clause": "C08.misclassified", "sig": {"written_delimited": delimited},
                      "msg": f"header {hdr.hex()} of a stream written {'delimited' if delimited else 'non-delimited'} "
                             f"(first frame length {first_frame_len}, first row length {first_row_len}) classified as "
                             f"{'delimited' if got else 'non-delimited'}"})
        if 0x0A in hdr[1:3] or (delimited and first_frame_len >= 128):
            keys.add((delimited, hdr, first_frame_len, first_row_len))
        # and the parser agrees with the reference reading
        try:
            flat = list(nodes.parse_flat("generic", io.BytesIO(data)))
            exp = [c04.conv_expected("generic", i) for i in r.items]
            if flat != exp:
                v.append({"clause": "C08.parse_differs", "sig": {"written_delimited": delimited},
                          "msg": f"header {hdr.hex()}: {len(exp)} items expected, got {len(flat)}"})
        except Exception as e:  # noqa: BLE001
            v.append({"clause": "C08.parse_raised", "sig": {"written_delimited": delimited, "exc": type(e).__name__},
                      "msg": f"header {hdr.hex()} written {'delimited' if delimited else 'non-delimited'}: "
                             f"{type(e).__name__}: {e}"})
    return v, frozenset(keys) if keys else None


def differential_side(plan, sim):
    sim.count("differential_runs")
    outs = {}
    datas = {}
    physical = None
    for delimited in (True, False):
        if plan["source"] == "real":
            cfg = dict(plan["cfg"], delimited=delimited)
            data = nodes.serialize_input(cfg, plan["ops"], None)
            physical = nodes.PHYS[cfg["physical"]]
            sim.count("real_writer_headers")
            got = hint(data[:3])
            if got != delimited:
                return [{"clause": "C08.misclassified", "sig": {"written_delimited": delimited},
                         "msg": f"real writer, header {data[:3].hex()} classified as "
                                f"{'delimited' if got else 'non-delimited'}"}], None
        else:
            p2 = dict(plan, delimited=delimited)
            data, frames, stats, r = c04.build_stream(p2, sim) if delimited else build_single(plan, sim)
            physical = plan["opts"]["physical_type"]
        if len(data) > 65536:
            sim.count("content_gt_64k")
        datas[delimited] = data
        pre = b"P" * int(plan.get("preamble") or 0) if plan["frontend"] in ("bytesio", "seekable_buffered") else b""
        if pre:
            sim.count("preamble_runs")
        fobj, pipe = open_frontend(plan["frontend"], sim, data=data, policy=plan.get("policy", "tape"), preamble=pre)
        try:
            res = c09.consume(plan, fobj, physical)
        except Exception as e:  # noqa: BLE001
            res = ("exc", type(e).__name__, str(e)[:200])
        if plan["consumer"] == "grouped" and res[0] == "ok":
            # sinks are per frame: compare the concatenation across modes
            fl = [s for a, b in res[2] for s in a]
            res = ("ok", "concat", fl if plan["integration"] == "generic" else sorted(set(fl), key=repr))
        outs[delimited] = res
    v = []
    if outs[True] != outs[False]:
        v.append({"clause": "C08.modes_differ", "sig": {"frontend": plan["frontend"], "consumer": plan["consumer"]},
                  "msg": f"delimited -> {c09.c01_abbrev(outs[True])}; non-delimited -> {c09.c01_abbrev(outs[False])}"})
    elif outs[True][0] != "ok":
        v.append({"clause": "C08.parse_raised", "sig": {"exc": outs[True][1]}, "msg": repr(outs[True])})
    key = (False, datas[False][:3], len(datas[False]), 0) if len(datas[False]) > 3 else None
    return v, key


def build_single(plan, sim):
    """Reference-encoder stream as a single non-delimited frame with the same rows."""
    items = c04.items_of(plan)
    rows, ends, stats = refenc.encode_rows(items, plan["opts"], sim, plan["knobs"])
    data = wire.write_stream([wire.Frame(list(rows))], False)
    return data, None, stats, None


def execute(plan, sim):
    if plan["kind"] == "header":
        return header_side(plan, sim)
    return differential_side(plan, sim)
