"""C14 - namespace declarations round-trip and never affect statements."""
from __future__ import annotations

import copy
import io

from checks import c01, c02
from simkit import nodes, refdec, workload as W
from simkit import terms as T

ID = "C14"
LEVEL = "exploration"
TECHNIQUE = ("deterministic simulation (fault-free pipeline): bindings x statements x small tables, option on/off differential, both integrations reading each other's streams, re-serialization")
LEVEL_NOTE = ("sampled inputs/configurations; rdflib bindings avoid rdflib's own defaults")
OPTIMIZED_EVERY = 25      # every 25th run is executed in a child interpreter started with python -O
PBPY_EVERY = 50           # every 50th run (offset 6) is executed with protobuf's pure-Python backend
COMPILED_EVERY = 25       # every 25th run (offset 12) is executed in a child that imports a mypyc build of the tree
RUNS = {"quick": 24000, "thorough": 500000}
RULE = ("seeded runs: bindings (empty prefix, IRIs with/without '/' '#', non-ASCII) x statement sequence x both "
        "integrations x TRIPLES/QUADS/GRAPHS x small tables (declarations cause evictions); written with the option "
        "on and off, read through flat parse, container parse and the other integration, re-serialized and read "
        "again; non-trivial = >=2 bindings and >=1 statement; distinct = distinct (config, bindings, statements)")
COMPONENTS = {"real": ["pyjelly serializers and parsers of both integrations incl. plugins", "rdflib namespace manager"],
              "stub": ["reader for the option-off clause: simkit.refdec"]}
ASSUMPTIONS = ["rdflib: bindings use labels/IRIs that do not collide with rdflib's default bindings and are compared "
               "as rdflib holds them on the source graph"]
PROBES = ["default_namespace_relabelled", "bare_target_reads", "generator_with_option_on", "multi_group_declarations", "per_group_bindings", "label_rebound_between_groups", "binding_only_sinks", "generic_runs", "rdflib_runs", "evictions_with_ns", "empty_prefix_label", "cross_integration_reads",
          "physical_GRAPHS", "physical_QUADS"]
SHRINK_LISTS = ["ops"]


def generate(rng, run, tier):
    integration = rng.choice(["generic", "generic", "rdflib"])
    safe = integration == "rdflib"
    physical = rng.choice(["TRIPLES", "TRIPLES", "QUADS", "GRAPHS"])
    stmts, flags, sizes, pools = c01.gen_workload(rng, physical, rdflib_safe=safe, max_n=12)
    nss = W.gen_namespaces(rng, pools, rng.randint(1, 6), rdflib_safe=safe)
    bare = integration == "rdflib" and physical == "TRIPLES" and rng.random() < 0.5
    if bare and rng.random() < 0.4:
        # a graph created without rdflib's default bindings may use their labels for its own namespaces
        nss.append(rng.choice([("schema", "http://schema.org/"), ("dc", "http://example.org/dc#"),
                               ("geo", "http://example.org/geo/")]))
    if integration == "rdflib" and rng.random() < 0.3:
        # the project's own label for a namespace that rdflib's default bindings know under another one
        # (bind() replaces the default on the source graph; a reader has to end up with the declared label too)
        nss.append(rng.choice([("dct", "http://purl.org/dc/terms/"), ("sdo", "https://schema.org/"),
                               ("w3time", "http://www.w3.org/2006/time#")]))
        known_ns_relabelled = True
    else:
        known_ns_relabelled = False
    mp, mn, md = c01.fit_tables(rng, stmts, nss, sizes, physical)
    if md == 0 and W.has_datatypes(stmts):
        md = max(1, W.max_needs(stmts)[2])
    entry = "frames_sink" if integration == "generic" else rng.choice(["graph_serialize", "frames_sink"])
    if rng.random() < 0.2 and physical != "GRAPHS":
        entry = "grouped_file"
    elif rng.random() < 0.15:
        entry = "frames_gen"        # a statement generator carries no bindings
    cfg = nodes.default_cfg(integration=integration, physical=physical, logical=1 if physical == "TRIPLES" else 2,
                            frame_size=rng.choice([1, 2, 3, 250]), max_names=mn, max_prefixes=mp, max_datatypes=md,
                            generalized=flags["generalized"], rdf_star=flags["rdf_star"], entry=entry, ns=True)
    if entry == "graph_serialize" and physical == "GRAPHS":
        cfg["pass_stream"] = True
    if known_ns_relabelled:
        cfg["known_ns_relabelled"] = True
    if bare:
        cfg["bare"] = True      # source (and, in clause 1b, target) graph without rdflib's default bindings
    if entry == "grouped_file":
        cfg["groups"] = c01.split_groups(rng, len(stmts)) if rng.random() < 0.6 else [len(stmts)]
        cfg["ns_all_groups"] = True
        if len(cfg["groups"]) > 1 and nss and rng.random() < 0.5:
            # each input of the grouped write has bindings of its own: a subset in another order, now and then a
            # label bound to a different namespace than in an earlier input - and bound back later (A, B, A)
            per = []
            for _ in cfg["groups"]:
                mine = [list(b) for b in rng.sample(nss, rng.randint(0, len(nss)))]
                if mine and len(nss) > 1 and rng.random() < 0.4:
                    mine[rng.randrange(len(mine))][1] = rng.choice(nss)[1]
                per.append(mine)
            if rng.random() < 0.5:
                per[-1] = [list(b) for b in per[0]]
            cfg["ns_groups"] = per
    if integration == "generic" and entry == "frames_sink" and rng.random() < 0.06:
        stmts = []          # a sink that holds bindings and no statements (yet): the bindings are its content
    ops = [["ns", p, i] for p, i in nss] + [["stmt", *T.to_json(st)] for st in stmts]
    return {"cfg": cfg, "ops": ops}


def source_bindings(cfg, stmts, nss):
    """Bindings as the source container holds them, in its own order."""
    c = nodes.make_container(cfg, stmts, nss)
    if cfg["integration"] == "generic":
        return [(p, T.from_generic(i)) for p, i in c.namespaces]
    return [(p, ("iri", str(i))) for p, i in c.namespaces()]


def is_subsequence(small, big):
    it = iter(big)
    return all(any(x == y for y in it) for x in small)


def read_all(integration, data, physical):
    """(prefix events of the flat parse, statements of flat parse, namespaces of container parse)."""
    flat = list(nodes.parse_flat(integration, io.BytesIO(data)))
    events = [(i[1], i[2]) for i in flat if i[0] == "ns"]
    stm = [i for i in flat if i[0] != "ns"]
    via = True if integration == "generic" else ("graph" if physical == "TRIPLES" else "dataset")
    _, nss = nodes.parse_to_graph(integration, io.BytesIO(data), via_plugin=via)
    return events, stm, [(n[1], n[2]) for n in nss]


def per_group_bindings(cfg, stmts, data_on, st_on, st_off, sim):
    """Inputs of a grouped write that carry bindings of their own.  A writer may repeat a declaration the reader
    already holds or not; what the property fixes is what the reader ends up with: when the statements of input k
    arrive, every label input k binds must stand for the namespace input k binds it to (declarations applied in
    stream order, the later one winning, as bind() does), and no binding is delivered that no input has."""
    integration = cfg["integration"]
    v = []
    wants, starts, pos, held = [], [], 0, 0
    for k, n in enumerate(cfg["groups"]):
        c = nodes.make_container(cfg, stmts[pos:pos + n], [tuple(b) for b in cfg["ns_groups"][k]])
        wants.append(source_bindings(cfg, stmts[pos:pos + n], [tuple(b) for b in cfg["ns_groups"][k]]))
        starts.append(held)
        # (what the container holds, not what was added to it: rdflib containers are sets)
        held += sum(1 for _ in (c.quads() if hasattr(c, "quads") else c))
        pos += n
    rebound = False
    seen = {}
    for w in wants:
        for p_, i_ in w:
            if seen.setdefault(p_, i_) != i_:
                rebound = True
            seen[p_] = i_
    if rebound:
        sim.count("label_rebound_between_groups")
    allowed = {b for w in wants for b in w}
    readers = [integration]
    if not cfg["generalized"] and not cfg["rdf_star"] and all(b[1] for g in cfg["ns_groups"] for b in g):
        readers.append("rdflib" if integration == "generic" else "generic")
    for reader in readers:
        try:
            flat = list(nodes.parse_flat(reader, io.BytesIO(data_on)))
        except Exception as e:  # noqa: BLE001
            v.append({"clause": "C14.parse_raised", "sig": {"exc": type(e).__name__, "reader": reader},
                      "msg": f"{reader}: {type(e).__name__}: {e}"})
            continue
        env, n_st, k = {}, 0, 0
        for item in flat:
            if item[0] == "ns":
                if (item[1], item[2]) not in allowed:
                    v.append({"clause": "C14.declarations_differ", "sig": {"integration": integration, "reader": reader,
                                                                          "groups": "own bindings"},
                              "msg": f"{reader} flat parse delivered {(item[1], item[2])!r}, bound on no input"})
                    break
                env[item[1]] = item[2]
                continue
            while k < len(starts) and starts[k] == n_st:
                bad = [(p_, i_, env.get(p_)) for p_, i_ in wants[k] if env.get(p_) != i_]
                if bad:
                    v.append({"clause": "C14.declarations_differ", "sig": {"integration": integration, "reader": reader,
                                                                          "groups": "own bindings"},
                              "msg": f"input {k} of the grouped write binds {bad[0][0]!r} to {bad[0][1]!r}; when its "
                                     f"statements arrive the declarations read so far leave it at {bad[0][2]!r} "
                                     f"(bindings per input: {cfg['ns_groups']!r})"})
                    k = len(starts)
                    break
                k += 1
            n_st += 1
    same = (st_on == st_off) if integration == "generic" else (set(st_on) == set(st_off))
    if not same:
        v.append({"clause": "C14.statements_change_with_option", "sig": {"integration": integration},
                  "msg": f"first difference {c01.first_diff(st_on, st_off)}"})
    return v


def execute(plan, sim):
    import warnings
    warnings.simplefilter("ignore")
    cfg = plan["cfg"]
    integration = cfg["integration"]
    stmts, nss = nodes.split_ops(plan["ops"])
    sim.count(integration + "_runs")
    sim.count("physical_" + cfg["physical"])
    if cfg.get("known_ns_relabelled"):
        sim.count("default_namespace_relabelled")
    if any(p == "" for p, _ in nss):
        sim.count("empty_prefix_label")
    if nss and not stmts:
        sim.count("binding_only_sinks")
    key = (repr(sorted(cfg.items())), repr(nss), repr(stmts)) if len(nss) >= 2 and stmts else None
    want = source_bindings(cfg, stmts, nss) if cfg["entry"] != "frames_gen" else []
    if cfg["entry"] == "frames_gen":
        sim.count("generator_with_option_on")
    v = []
    try:
        data_on = nodes.serialize(cfg, plan["ops"], sim)
        cfg_off = dict(cfg, ns=False)
        data_off = nodes.serialize(cfg_off, plan["ops"], sim)
    except Exception as e:  # noqa: BLE001
        return [{"clause": "C14.serialize_raised", "sig": {"exc": type(e).__name__},
                 "msg": f"{type(e).__name__}: {e}"}], key
    # option off: no declaration written, version 1
    r_off = refdec.decode_stream(data_off, True, strict=True)
    if not r_off.ok or r_off.audit["namespace_rows"] or r_off.options["version"] != 1:
        v.append({"clause": "C14.declarations_written_with_option_off", "sig": {},
                  "msg": f"error={r_off.error} namespace_rows={r_off.audit['namespace_rows']} "
                         f"version={r_off.options and r_off.options['version']}"})
    r_on = refdec.decode_stream(data_on, True, strict=True)
    if r_on.ok and sum(r_on.audit["evictions"]):
        sim.count("evictions_with_ns")
    if not r_on.ok:
        v.append({"clause": "C14.invalid_stream", "sig": {"cls": r_on.error["cls"]}, "msg": str(r_on.error)})
        return v, key
    try:
        ev, st_on, cont_ns = read_all(integration, data_on, cfg["physical"])
        _, st_off, _ = read_all(integration, data_off, cfg["physical"])
    except Exception as e:  # noqa: BLE001
        v.append({"clause": "C14.parse_raised", "sig": {"exc": type(e).__name__}, "msg": f"{type(e).__name__}: {e}"})
        return v, key
    # (1) declarations delivered: same prefix, same IRI, same order (once per group written)
    n_groups = len(cfg.get("groups") or [1]) if cfg["entry"] == "grouped_file" else 1
    if n_groups > 1:
        sim.count("multi_group_declarations")
    if cfg.get("ns_groups"):
        sim.count("per_group_bindings")
        v.extend(per_group_bindings(cfg, stmts, data_on, st_on, st_off, sim))
        return v, key
    want_ev = want * n_groups
    # each input of a grouped write carries the bindings: a writer may declare them with every group (as pyjelly
    # does) or fewer times - the property asks that every binding is delivered, same prefix, same IRI, same order
    repeats = [want * k for k in range(1, n_groups + 1)]
    if ev in repeats:
        want_ev = ev
    if ev != want_ev:
        v.append({"clause": "C14.declarations_differ", "sig": {"integration": integration, "reader": "flat"},
                  "msg": f"bound on the source {want!r} (x{n_groups} groups); flat parse delivered {ev!r}"})
    if integration == "generic":
        want_map = dict(want)
        if dict(cont_ns) != want_map or [p for p, _ in cont_ns] != list(want_map):
            v.append({"clause": "C14.declarations_differ", "sig": {"integration": integration, "reader": "container"},
                      "msg": f"bound on the source {want!r}; sink.namespaces after parse {cont_ns!r}"})
    elif not cfg.get("bare"):
        # (a bare source may use labels that rdflib's default bindings of the default target own: clause 1b)
        got_map = dict(cont_ns)
        bad = [(p, i) for p, i in want if got_map.get(p) != i]
        if bad or not is_subsequence([p for p, _ in want], [p for p, _ in cont_ns]):
            v.append({"clause": "C14.declarations_differ", "sig": {"integration": integration, "reader": "container"},
                      "msg": f"source bindings not found (or out of order) after Graph.parse: {bad[:3]!r}"})
    # (1b) rdflib: a target created WITHOUT rdflib's default bindings must hold exactly what the stream declares
    #      (this is what rdflib's own parsers deliver into such a graph)
    if cfg.get("bare") and cfg["entry"] != "frames_gen" and n_groups == 1:
        # (rdflib's Dataset has no bind_namespaces argument in this version: triples/Graph only)
        import rdflib
        sim.count("bare_target_reads")
        bare = rdflib.Graph(bind_namespaces="none")
        before = [(p_, str(i_)) for p_, i_ in bare.namespaces()]
        try:
            bare.parse(data=data_on, format="jelly")
            got_b = [(p_, ("iri", str(i_))) for p_, i_ in bare.namespaces() if (p_, str(i_)) not in before]
            # the stream's declarations, last one per prefix winning (bind() semantics), in order
            if sorted(got_b) != sorted(dict(ev).items()):
                extra = [b for b in got_b if b not in ev]
                missing = [b for b in dict(ev).items() if b not in got_b]
                v.append({"clause": "C14.declarations_differ",
                          "sig": {"integration": integration, "reader": "plugin into a graph without default bindings"},
                          "msg": f"stream declares {ev!r}; Graph(bind_namespaces='none').parse() ends up with "
                                 f"{len(got_b)} bindings, {len(extra)} never declared (e.g. {extra[:3]!r}), "
                                 f"missing {missing[:3]!r}"})
        except Exception as e:  # noqa: BLE001
            v.append({"clause": "C14.parse_raised", "sig": {"exc": type(e).__name__, "reader": "bare"},
                      "msg": f"{type(e).__name__}: {e}"})
    # (2) statements identical with the option on and off
    same = (st_on == st_off) if integration == "generic" else (set(st_on) == set(st_off))
    if not same:
        v.append({"clause": "C14.statements_change_with_option", "sig": {"integration": integration},
                  "msg": f"first difference {c01.first_diff(st_on, st_off)}"})
    # (3) the other integration reads the same declarations (RDF 1.1 content only)
    other = "rdflib" if integration == "generic" else "generic"
    if not cfg["generalized"] and not cfg["rdf_star"] and all(i for _, i in nss):
        sim.count("cross_integration_reads")
        try:
            ev2 = [(i[1], i[2]) for i in nodes.parse_flat(other, io.BytesIO(data_on)) if i[0] == "ns"]
            if ev2 != want_ev:
                v.append({"clause": "C14.declarations_differ", "sig": {"integration": integration, "reader": other},
                          "msg": f"bound on the source {want!r}; {other} flat parse delivered {ev2!r}"})
        except Exception as e:  # noqa: BLE001
            v.append({"clause": "C14.parse_raised", "sig": {"exc": type(e).__name__, "reader": other},
                      "msg": f"{other}: {type(e).__name__}: {e}"})
    # (4) re-serializing what was read reproduces the same declarations
    if not v and n_groups == 1:
        try:
            ops2 = [["ns", p, i[1]] for p, i in ev] + [["stmt", *T.to_json(s)] for s in stmts]
            if integration == "generic":
                # rebuild the sink exactly from what the reader delivered
                from pyjelly.integrations.generic.parse import parse_jelly_to_graph
                sink = parse_jelly_to_graph(io.BytesIO(data_on))
                out = io.BytesIO()
                m = nodes.integ_mod(cfg)
                stream = nodes.make_stream(dict(cfg, entry="frames_sink"))
                from pyjelly.serialize.ioutils import write_delimited
                for fr in m.stream_frames(stream, sink):
                    write_delimited(fr, out)
                data2 = out.getvalue()
            else:
                data2 = nodes.serialize(cfg, ops2, sim)
            ev3 = [(i[1], i[2]) for i in nodes.parse_flat(integration, io.BytesIO(data2)) if i[0] == "ns"]
            if ev3 != want:
                v.append({"clause": "C14.reserialized_declarations_differ", "sig": {"integration": integration},
                          "msg": f"first generation {want!r}; after read + write + read {ev3!r}"})
        except Exception as e:  # noqa: BLE001
            v.append({"clause": "C14.reserialize_raised", "sig": {"exc": type(e).__name__},
                      "msg": f"{type(e).__name__}: {e}"})
    return v, key
