"""C04 - every valid Jelly stream decodes to exactly the statements it encodes
(model writer making arbitrary legal choices, real reader)."""
from __future__ import annotations

import copy

from checks import c01, c02
from simkit import nodes, refdec, refenc, wire, workload as W
from simkit import terms as T
from simkit.kernel import HarnessError
from simkit.pipe import open_frontend

ID = "C04"
LEVEL = "exploration"
TECHNIQUE = ('deterministic simulation with a simulated foreign peer: reference encoder making every legal choice through the choice tape (buggify on the peer side) -> channel -> six real parse entry points')
LEVEL_NOTE = ("sampled valid streams of an independent producer; the model's own output is first validated by the reference decoder")
OPTIMIZED_EVERY = 25      # every 25th run is executed in a child interpreter started with python -O
PBPY_EVERY = 50           # every 50th run (offset 6) is executed with protobuf's pure-Python backend
COMPILED_EVERY = 25       # every 25th run (offset 12) is executed in a child that imports a mypyc build of the tree
RUNS = {"quick": 60000, "thorough": 1200000}
RULE = ("seeded runs: statement/namespace sequence x options x legal-choice tape of the reference encoder "
        "(eviction policy, split points, explicit/zero ids, redundant entries, unrepeated terms, frame cuts, "
        "empty/metadata frames, repeated options, elided graph_end, version, delimiting) fed to one of the six "
        "real parse entry points; non-trivial = >=2 statements and >=1 non-conventional choice taken; "
        "distinct = distinct byte streams")
COMPONENTS = {"real": ["pyjelly parsers of both integrations (flat, grouped, to_graph, plugins)", "protobuf upb",
                       "io.BufferedReader"],
              "stub": ["writer: simkit.refenc (independent reference encoder)", "byte channel"]}
ASSUMPTIONS = ["the reference encoder's output is first accepted by the reference decoder (else harness error)",
               "rdflib consumers get RDF 1.1 content only"]
PROBES = ["non_lru_eviction", "odd_split", "redundant_entry", "explicit_entry_id", "explicit_name_id",
          "explicit_prefix_id", "unrepeated_equal_term", "elided_graph_end", "nonsequential_slot",
          "empty_frames", "metadata_frames", "repeated_options", "version2", "nondelimited",
          "prefix_table_off", "datatype_table_off", "tables_4096", "eviction", "ambiguous_leading_frame"]
SHRINK_LISTS = ["items"]


def gen_stream_plan(rng, rdflib_safe):
    physical = rng.choice(["TRIPLES", "QUADS", "GRAPHS"])
    stmts, flags, sizes, pools = c01.gen_workload(rng, physical, rdflib_safe=rdflib_safe, max_n=30)
    version = rng.choice([1, 2])
    nss = W.gen_namespaces(rng, pools, rng.randint(0, 4), rdflib_safe) if version == 2 else []
    mp, mn, md = c01.fit_tables(rng, stmts, nss, sizes, physical)
    need_d = W.max_needs(stmts, xsd_counts=True)[2]
    if need_d:
        md = max(md, need_d)
    if rng.random() < 0.06:
        mp, mn, md = (4096 if mp else 0), 4096, (4096 if md else 0)
    # items: namespaces interleaved at random positions
    items = [list(T.to_json(st)) for st in stmts]
    for p, i in nss:
        items.insert(rng.randint(0, len(items)), ["ns", p, i])
    lt = rng.choice(c01.TRIPLE_LOGICALS if physical == "TRIPLES" else c01.QUAD_LOGICALS)
    opts = refenc.make_opts(nodes.PHYS[physical], lt, mn, mp, md, version,
                            rng.choice(["", "", "nm", "zażółć"]), flags["generalized"], flags["rdf_star"])
    knobs = {"weird": rng.choice([0, 1, 1, 2, 3]), "evict": rng.choice(["lru", "lru", "mru", "fifo", "random"]),
             "frame_rows": rng.choice([0, 1, 2, 3, 5, 8, 20]), "leading_empty": rng.random() < 0.3}
    delimited = rng.random() < 0.8
    return {"items": items, "opts": opts, "knobs": knobs, "delimited": delimited}


def generate(rng, run, tier):
    integration = rng.choice(["generic", "generic", "rdflib"])
    plan = gen_stream_plan(rng, integration == "rdflib")
    plan["integration"] = integration
    plan["consumer"] = rng.choice(["flat", "flat", "grouped", "to_graph", "plugin"])
    plan["frontend"] = rng.choice(["bytesio", "buffered", "raw", "seekable_buffered", "gzip", "duck", "rwpair"])
    if plan["delimited"] and rng.random() < 0.004:
        plan["ambiguous_lead"] = True       # first frame: no rows, metadata only, exactly 10 bytes (0A 7A 08 ...)
    return plan


def simplify(plan):
    for key, val in (("frontend", "bytesio"), ("consumer", "flat"), ("delimited", True)):
        if plan.get(key) != val:
            p = copy.deepcopy(plan)
            p[key] = val
            yield p
    if plan["knobs"].get("weird", 0) > 0:
        p = copy.deepcopy(plan)
        p["knobs"]["weird"] -= 1
        yield p


def items_of(plan):
    out = []
    for it in plan["items"]:
        if it[0] == "ns":
            out.append(("ns", it[1], it[2]))
        else:
            out.append(T.from_json(it))
    return out


def build_stream(plan, sim):
    """Encode with the reference encoder and self-check with the reference decoder."""
    items = items_of(plan)
    data, frames, stats = refenc.encode(items, plan["opts"], sim, plan["knobs"], plan["delimited"])
    if plan.get("ambiguous_lead") and plan["delimited"]:
        lead = wire.Frame([], [("ab", b"cd")])
        if len(lead.encode()) != 10:
            raise HarnessError("ambiguous leading frame is not 10 bytes long")
        frames = [lead] + [f for f in frames]
        data = wire.write_stream(frames, True)
        sim.count("ambiguous_leading_frame")
    r = refdec.decode_stream(data, plan["delimited"], strict=False)
    want = [("ns", i[1], ("iri", i[2])) if i[0] == "ns" else i for i in items]
    if not r.ok:
        raise HarnessError(f"reference decoder rejects reference encoder output: {r.error}")
    if r.items != want:
        raise HarnessError(f"reference models disagree: {c01.first_diff(want, r.items)}")
    for k, v in stats.items():
        sim.count(k, v)
    if any(not f.rows for f in frames):
        sim.count("empty_frames")
    if any(f.metadata for f in frames):
        sim.count("metadata_frames")
    if r.audit["options_rows"] > 1:
        sim.count("repeated_options")
    o = plan["opts"]
    if o["version"] == 2:
        sim.count("version2")
    if not plan["delimited"]:
        sim.count("nondelimited")
    if o["max_prefix_table_size"] == 0:
        sim.count("prefix_table_off")
    if o["max_datatype_table_size"] == 0:
        sim.count("datatype_table_off")
    if o["max_name_table_size"] == 4096:
        sim.count("tables_4096")
    return data, frames, stats, r


def conv_expected(integration, item):
    """Expected neutral item as the integration's objects would hold it."""
    if integration == "generic":
        if item[0] == "ns":
            return item
        return T.norm_stmt(item)
    if item[0] == "ns":
        return item
    if len(item) == 3:
        return tuple(T.from_rdflib(T.to_rdflib(t)) for t in item)
    return (*(T.from_rdflib(T.to_rdflib(t)) for t in item[:3]), T.from_rdflib(T.to_rdflib(item[3]), graph_slot=True))


def run_consumer(integration, kind, fobj, physical):
    """Returns ('seq', items) | ('frames', [(stmts, nss)...]) | ('bag', stmts, nss)."""
    if kind == "flat":
        return ("seq", list(nodes.parse_flat(integration, fobj)))
    if kind == "grouped":
        return ("frames", list(nodes.parse_grouped(integration, fobj)))
    if kind == "to_graph":
        sts, nss = nodes.parse_to_graph(integration, fobj)
        return ("bag", sts, nss)
    via = True if integration == "generic" else ("graph" if physical == 1 else "dataset")
    sts, nss = nodes.parse_to_graph(integration, fobj, via_plugin=via)
    return ("bag", sts, nss)


def check_against(cid, integration, res, r, physical):
    """Compare a consumer result with the reference decoder's reading ``r``."""
    exp_items = [conv_expected(integration, i) for i in r.items]
    exp_st = [i for i in exp_items if i[0] != "ns"]
    exp_ns = [i for i in exp_items if i[0] == "ns"]
    ordered = integration == "generic"
    if res[0] == "seq":
        return c01.compare_seq(cid, exp_items, res[1])
    if res[0] == "bag":
        got_st, got_ns = res[1], res[2]
        if ordered:
            v = c01.compare_seq(cid, exp_st, got_st)
        else:
            if physical == 1:
                got_st = [g[:3] for g in got_st]
            v = [] if set(got_st) == set(exp_st) else [
                {"clause": f"{cid}.set_differs", "sig": {},
                 "msg": f"missing={sorted(set(exp_st) - set(got_st), key=repr)[:2]!r} "
                        f"extra={sorted(set(got_st) - set(exp_st), key=repr)[:2]!r}"}]
        v += check_ns(cid, integration, exp_ns, got_ns)
        return v
    # frames
    frames = res[1]
    nonempty_expected = [[conv_expected(integration, i) for i in fi] for fi in r.frames_items]
    if len(frames) != len(nonempty_expected):
        return [{"clause": f"{cid}.sink_count", "sig": {},
                 "msg": f"{len(nonempty_expected)} frames in the stream, {len(frames)} sinks yielded"}]
    for j, ((sts, nss), exp) in enumerate(zip(frames, nonempty_expected)):
        e_st = [i for i in exp if i[0] != "ns"]
        e_ns = [i for i in exp if i[0] == "ns"]
        if ordered:
            v = c01.compare_seq(cid, e_st, sts)
        else:
            v = [] if set(sts) == set(e_st) else [
                {"clause": f"{cid}.set_differs", "sig": {"frame": "grouped"},
                 "msg": f"frame {j}: missing={sorted(set(e_st) - set(sts), key=repr)[:2]!r} "
                        f"extra={sorted(set(sts) - set(e_st), key=repr)[:2]!r}"}]
        v += check_ns(cid, integration, e_ns, nss)
        if v:
            for x in v:
                x["msg"] = f"sink {j}: " + x["msg"]
            return v
    return []


def check_ns(cid, integration, exp_ns, got_ns):
    """Namespace declarations: last binding per prefix wins in a dict-backed sink; rdflib adds defaults."""
    want = {}
    for _, p, iri in exp_ns:
        want[p] = iri
    got = {p: iri for _, p, iri in got_ns}
    if integration == "generic":
        if got != want:
            return [{"clause": f"{cid}.namespaces", "sig": {}, "msg": f"expected {want!r} got {got!r}"}]
        return []
    return []   # rdflib namespace semantics are C14's subject (rdflib rebinds/renames on conflict)


def execute(plan, sim):
    import warnings
    warnings.simplefilter("ignore")
    data, frames, stats, r = build_stream(plan, sim)
    integration = plan["integration"]
    physical = plan["opts"]["physical_type"]
    fobj, _ = open_frontend(plan["frontend"], sim, data=data, policy="safe")
    try:
        res = run_consumer(integration, plan["consumer"], fobj, physical)
    except Exception as e:  # noqa: BLE001
        amb = bool(frames and not frames[0].rows and frames[0].metadata and len(frames[0].encode()) == 10)
        return [{"clause": "C04.parse_raised", "sig": {"exc": type(e).__name__, "consumer": plan["consumer"],
                                                      "leading_metadata_frame_of_10_bytes": amb},
                 "msg": f"{integration} {plan['consumer']} raised {type(e).__name__}: {e}"}], None
    v = check_against("C04", integration, res, r, physical)
    nonconv = sum(stats.get(k, 0) for k in ("non_lru_eviction", "odd_split", "redundant_entry",
                                              "explicit_entry_id", "explicit_name_id", "explicit_prefix_id",
                                              "unrepeated_equal_term", "elided_graph_end", "nonsequential_slot"))
    key = data if (len(r.statements()) >= 2 and nonconv) else None
    return v, key
