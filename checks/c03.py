"""C03 - every emitted stream is valid Jelly for an independent decoder (real writer, model reader)."""
from __future__ import annotations

import copy

from checks import c01, c02
from simkit import nodes, refdec, workload as W
from simkit import terms as T
from simkit.kernel import HarnessError

ID = "C03"
LEVEL = "exploration"
TECHNIQUE = ('deterministic simulation, refinement against a reference model: real writers of both integrations -> independent wire codec + strict spec state machine as the reader')
LEVEL_NOTE = ('two-party refinement with the reader replaced by an independent model written from rdf.proto; sampled inputs/configurations')
OPTIMIZED_EVERY = 25      # every 25th run is executed in a child interpreter started with python -O
PBPY_EVERY = 50           # every 50th run (offset 6) is executed with protobuf's pure-Python backend
COMPILED_EVERY = 25       # every 25th run (offset 12) is executed in a child that imports a mypyc build of the tree
RUNS = {"quick": 80000, "thorough": 1500000}
RULE = ("every byte string written by the real serializers in C01/C02-style seeded runs (both integrations, "
        "three physical types, namespace declarations on/off) is decoded by the independent reference decoder "
        "in strict mode; non-trivial = >=2 statements and >=1 lookup entry row; distinct = distinct "
        "(configuration, statement sequence) pairs")
COMPONENTS = {"real": ["pyjelly serializers of both integrations", "protobuf upb (encoding)"],
              "stub": ["reader: simkit.wire + simkit.refdec (independent codec and spec state machine)"]}
ASSUMPTIONS = ["the reference decoder's reading of rdf.proto (DESIGN.md section 3)",
               "inputs and configurations are sampled"]
PROBES = ["direct_graph_runs", "direct_graph_interrupted", "direct_graph_refused_after_interruption", "direct_bad_statement_rejected", "direct_statement_refused", "direct_stream_runs", "direct_preset_mismatch", "direct_ns_refused", "shared_stream_writes", "evictions", "ns_streams", "rdflib_streams", "generic_streams", "physical_GRAPHS",
          "zero_name_ids", "zero_prefix_ids", "zero_entry_ids"]
SHRINK_LISTS = ["ops"]


def gen_direct(rng, run, tier):
    """The Stream classes driven directly: encoder and options handed to the constructor separately (their
    lookup presets may differ), statements pushed one by one, namespace_declaration() called between them
    whether or not the options enable namespace declarations."""
    integration = rng.choice(["generic", "rdflib"])
    physical = rng.choice(["TRIPLES", "QUADS"])
    stmts, flags, sizes, _ = c01.gen_workload(rng, physical, rdflib_safe=integration == "rdflib", max_n=16)
    pools = W.Pools(rng, 3, 3, 1, rdflib_safe=integration == "rdflib")
    nss = W.gen_namespaces(rng, pools, rng.randint(0, 3), rdflib_safe=integration == "rdflib")
    mp, mn, md = c01.fit_tables(rng, stmts, [], sizes, physical)
    need = W.max_needs(stmts, nss, prefix_enabled=mp > 0, graphs_type=False)
    if mp:
        mp = max(mp, need[0])
    mn = max(mn, need[1])
    if md == 0 and W.has_datatypes(stmts):
        md = max(1, need[2])
    cfg = nodes.default_cfg(integration=integration, physical=physical, logical=1 if physical == "TRIPLES" else 2,
                            delimited=True, frame_size=rng.choice([1, 3, 250]), max_names=mn, max_prefixes=mp,
                            max_datatypes=md, generalized=flags["generalized"], rdf_star=flags["rdf_star"],
                            entry="direct")
    cfg["ns"] = rng.random() < 0.5
    # the preset written into the options object: the encoder's own, the library default, or another one
    cfg["options_preset"] = rng.choice(["same", "same", "default", "smaller", "larger"])
    cfg["skip_enroll"] = rng.random() < 0.3
    ops = [["stmt", *T.to_json(st)] for st in stmts]
    for p_, i_ in nss:
        ops.insert(rng.randint(0, len(ops)), ["ns", p_, i_])
    r = rng.random()
    if r < 0.15 and stmts:
        # a statement the encoder has to reject (unsupported object, for the generic integration inside a quoted
        # triple whose outer subject and predicate repeat the previous statement); the caller goes on pushing
        k = rng.randrange(len(stmts))
        st = stmts[k]
        bad = ["bad", *T.to_json(st[:2]), "nested" if integration == "generic" and rng.random() < 0.6 else "plain",
               *(T.to_json(st[3:4]))]
        pos = [i for i, o in enumerate(ops) if o[0] == "stmt"][k] + 1
        ops.insert(pos, bad)
        if bad[3] == "nested":
            cfg["rdf_star"] = True
    elif r < 0.3 and stmts:
        # tables too small for one of the statements: the writer has to refuse it (C18), never write it wrongly
        which = rng.choice(["names", "prefixes", "datatypes"])
        if which == "names":
            cfg["max_names"] = 8
        elif which == "prefixes" and cfg["max_prefixes"]:
            cfg["max_prefixes"] = rng.choice([1, 2])
        elif cfg["max_datatypes"]:
            cfg["max_datatypes"] = 1
        cfg["maybe_undersized"] = True
    return {"kind": "direct", "cfg": cfg, "ops": ops}


def write_direct(cfg, ops, sim):
    import io
    from pyjelly.options import LookupPreset
    from pyjelly.serialize.ioutils import write_delimited
    from pyjelly.serialize.streams import QuadStream, TripleStream
    import dataclasses
    enc_preset = LookupPreset(max_names=cfg["max_names"], max_prefixes=cfg["max_prefixes"],
                              max_datatypes=cfg["max_datatypes"])
    how = cfg["options_preset"]
    if how == "same":
        opt_preset = enc_preset
    elif how == "default":
        opt_preset = LookupPreset()
    elif how == "smaller":
        opt_preset = LookupPreset(max_names=8, max_prefixes=min(cfg["max_prefixes"], 1), max_datatypes=0)
    else:
        opt_preset = LookupPreset(max_names=min(4096, cfg["max_names"] * 2), max_prefixes=min(4096, cfg["max_prefixes"] * 2 + 1),
                                  max_datatypes=min(4096, cfg["max_datatypes"] + 3))
    options = dataclasses.replace(nodes.make_options(cfg), lookup_preset=opt_preset)
    if cfg["integration"] == "generic":
        from pyjelly.integrations.generic.serialize import GenericSinkTermEncoder as Enc
    else:
        from pyjelly.integrations.rdflib.serialize import RDFLibTermEncoder as Enc
    cls = TripleStream if cfg["physical"] == "TRIPLES" else QuadStream
    out = io.BytesIO()
    refused = 0
    written = []
    n_stmt = -1
    try:
        stream = cls(encoder=Enc(lookup_preset=enc_preset), options=options)
        if not cfg.get("skip_enroll"):
            stream.enroll()         # otherwise: straight to the statement / declaration methods, as a caller may
    except Exception as e:  # noqa: BLE001
        if how == "same":
            raise
        # two different presets were handed over: refusing the pair is as good as declaring the encoder's sizes
        sim.event("contradictory_presets_refused", type(e).__name__)
        sim.count("direct_contradictory_presets_refused")
        return b"", 0, []
    push = stream.triple if cfg["physical"] == "TRIPLES" else stream.quad
    conv = nodes.conv_stmt(cfg)
    for op in ops:
        if op[0] == "bad":
            s_, p_ = (T.from_json(x) for x in op[1:3])
            if cfg["integration"] == "generic":
                from pyjelly.integrations.generic import generic_sink as gs
                o_ = gs.Triple(T.to_generic(s_), T.to_generic(p_), object()) if op[3] == "nested" else object()
                terms = [T.to_generic(s_), T.to_generic(p_), o_] + [T.to_generic(T.from_json(g)) for g in op[4:5]]
                bad_st = gs.Triple(*terms) if len(terms) == 3 else gs.Quad(*terms)
            else:
                terms = [T.to_rdflib(s_), T.to_rdflib(p_), object()] + [T.to_rdflib(T.from_json(g)) for g in op[4:5]]
                bad_st = tuple(terms)
            try:
                fr = push(bad_st)
            except Exception as e:  # noqa: BLE001
                sim.event("bad_statement_rejected", type(e).__name__)
                sim.count("direct_bad_statement_rejected")
                continue
            raise HarnessError("a statement with an unsupported term was accepted")
        if op[0] == "ns":
            try:
                stream.namespace_declaration(op[1], op[2])
            except Exception as e:  # noqa: BLE001
                if cfg["ns"] and not stream.failed:
                    raise
                # refusing a namespace row for a version-1 stream is one of the two valid answers
                refused += 1
                sim.event("ns_refused", type(e).__name__)
            continue
        n_stmt += 1
        try:
            fr = push(conv(T.from_json(op[1:])))
        except Exception as e:  # noqa: BLE001
            # refusals are legitimate: the stream was marked failed by an earlier rejected statement, or the
            # tables are too small for this statement.  What was written must still be a valid stream.
            if not (stream.failed or cfg.get("maybe_undersized")):
                raise
            sim.event("statement_refused", n_stmt, type(e).__name__)
            sim.count("direct_statement_refused")
            continue
        written.append(n_stmt)
        if fr:
            write_delimited(fr, out)
    fr = stream.flow.to_stream_frame()
    if fr:
        write_delimited(fr, out)
    return out.getvalue(), refused, written


def execute_direct(plan, sim):
    cfg = plan["cfg"]
    sim.count("direct_stream_runs")
    sim.count(cfg["integration"] + "_streams")
    if cfg["options_preset"] != "same":
        sim.count("direct_preset_mismatch")
    stmts, nss = nodes.split_ops(plan["ops"])
    try:
        data, refused, written = write_direct(cfg, plan["ops"], sim)
        stmts = [stmts[i] for i in written]
    except Exception as e:  # noqa: BLE001
        return [{"clause": "C03.serialize_raised", "sig": {"exc": type(e).__name__, "entry": "direct"},
                 "msg": f"Stream driven directly raised {type(e).__name__}: {e}"}], None
    if refused:
        sim.count("direct_ns_refused", refused)
    if not data and cfg["options_preset"] != "same":
        return [], None             # the contradictory pair was refused: nothing was written
    r = refdec.decode_stream(data, True, strict=True)
    key = (repr(sorted(cfg.items())), repr(plan["ops"])) if len(stmts) >= 2 else None
    if not r.ok:
        e = r.error
        return [{"clause": "C03.invalid_stream", "sig": {"cls": e["cls"], "entry": "direct"},
                 "msg": f"Stream(encoder=<{cfg['max_names']}/{cfg['max_prefixes']}/{cfg['max_datatypes']}>, options preset "
                        f"{cfg['options_preset']}), namespace_declarations={cfg['ns']}: reference decoder rejects the stream "
                        f"at frame {e['frame']} row {e['row']}: {e['cls']}: {e['msg']}"}], key
    if r.audit["namespace_rows"]:
        sim.count("ns_streams")
    v = []
    got = [norm_item(i) for i in r.statements()]
    exp = [T.norm_stmt(st) for st in stmts] if cfg["integration"] == "generic" else \
        [norm_item(c02_holds(st)) for st in stmts]
    if got != exp:
        d = c01.first_diff(exp, got)
        v.append({"clause": "C03.denotes_other_data", "sig": {"integration": cfg["integration"], "entry": "direct"},
                  "msg": f"statement {d[0]}: pushed {d[1]!r}, the stream says {d[2]!r}"})
    want_ns = len(nss) - refused
    if r.audit["namespace_rows"] != want_ns:
        v.append({"clause": "C03.namespace_rows", "sig": {"entry": "direct"},
                  "msg": f"{len(nss)} declarations, {refused} refused, {r.audit['namespace_rows']} rows in the stream"})
    return v, key


def c02_holds(st):
    """What the statement is once held as rdflib terms (a statement pushed to a stream is not de-duplicated)."""
    from checks import c15
    return c15.neutral_as_rdflib_holds(st)


def gen_direct_graphs(rng, run, tier):
    """GraphStream.graph() driven directly, one call per run of equal graph names; the iterator that supplies a
    graph's triples may fail half way (the caller's data source breaks) or the caller may stop consuming the
    frames of a graph and close the generator; the caller then carries on with the next graph."""
    integration = rng.choice(["generic", "rdflib"])
    stmts, flags, sizes, _ = c01.gen_workload(rng, "GRAPHS", rdflib_safe=integration == "rdflib", max_n=14)
    mp, mn, md = c01.fit_tables(rng, stmts, [], sizes, "GRAPHS")
    if md == 0 and W.has_datatypes(stmts):
        md = max(1, W.max_needs(stmts)[2])
    cfg = nodes.default_cfg(integration=integration, physical="GRAPHS", logical=rng.choice([2, 4, 14]), delimited=True,
                            frame_size=rng.choice([1, 3, 250]), max_names=mn, max_prefixes=mp, max_datatypes=md,
                            generalized=flags["generalized"], rdf_star=flags["rdf_star"], entry="direct_graphs")
    ops = [["stmt", *T.to_json(st)] for st in stmts]
    if rng.random() < 0.7 and len(ops) >= 2:
        ops.insert(rng.randint(1, len(ops) - 1), [rng.choice(["raise", "raise", "close"])])
    return {"kind": "direct_graphs", "cfg": cfg, "ops": ops}


class SourceFailed(Exception):
    """The caller's own data source broke while a graph was being written."""


def execute_direct_graphs(plan, sim):
    import io
    from pyjelly.serialize.ioutils import write_delimited
    cfg = plan["cfg"]
    sim.count("direct_graph_runs")
    sim.count(cfg["integration"] + "_streams")
    conv = T.to_generic if cfg["integration"] == "generic" else T.to_rdflib
    # segments: runs of equal graph names; a fault op belongs to the segment it falls into
    segs = []
    for op in plan["ops"]:
        if op[0] == "stmt":
            st = T.from_json(op[1:])
            if not segs or segs[-1][0] != st[3] or segs[-1][2]:
                segs.append([st[3], [], False])
            segs[-1][1].append(("stmt", st))
        elif segs:
            segs[-1][1].append((op[0],))
            segs[-1][2] = True          # whatever follows starts a new graph() call
    out = io.BytesIO()
    written, interrupted, refused_later = [], None, 0
    try:
        stream = nodes.make_stream(cfg)
        stream.enroll()
    except Exception as e:  # noqa: BLE001
        return [{"clause": "C03.serialize_raised", "sig": {"exc": type(e).__name__, "entry": "direct_graphs"},
                 "msg": f"{type(e).__name__}: {e}"}], None
    for g, items, _ in segs:
        state = {"close": False}

        def triples(items=items, state=state):
            for it in items:
                if it[0] == "raise":
                    raise SourceFailed
                if it[0] == "close":
                    state["close"] = True
                    continue
                written.append(it[1])
                yield [conv(t) for t in it[1][:3]]
        gen = None
        try:
            gen = stream.graph(conv(g), triples())
            for fr in gen:
                write_delimited(fr, out)
                if state["close"]:
                    break
            if state["close"]:
                gen.close()         # the caller walks away from this graph (what a `break` + garbage collection do)
                interrupted = "close"
                sim.fault("generator_closed")
        except SourceFailed:
            interrupted = "raise"
            sim.fault("source_failed")
        except Exception as e:  # noqa: BLE001
            if interrupted is None:
                return [{"clause": "C03.serialize_raised", "sig": {"exc": type(e).__name__, "entry": "direct_graphs"},
                         "msg": f"GraphStream.graph() raised {type(e).__name__}: {e}"}], None
            refused_later += 1      # the stream refuses further use after the interrupted graph: fine
            sim.event("graph_refused", type(e).__name__)
    try:
        fr = stream.flow.to_stream_frame()
        if fr:
            write_delimited(fr, out)
    except Exception:  # noqa: BLE001
        pass
    if interrupted:
        sim.count("direct_graph_interrupted")
    if refused_later:
        sim.count("direct_graph_refused_after_interruption")
    data = out.getvalue()
    r = refdec.decode_stream(data, True, strict=True)
    key = (repr(sorted(cfg.items())), repr(plan["ops"])) if len(segs) >= 2 else None
    if not r.ok:
        e = r.error
        return [{"clause": "C03.invalid_stream", "sig": {"cls": e["cls"], "entry": "direct_graphs"},
                 "msg": f"after a graph interrupted by {interrupted}: reference decoder rejects the stream at frame "
                        f"{e['frame']} row {e['row']}: {e['cls']}: {e['msg']}"}], key
    v = []
    a = r.audit
    # a graph that was interrupted may stay open at the very end of what was written (a prefix ends where it ends);
    # a graph_start INSIDE a graph that was never ended is what must not be written
    if a["implicit_graph_close"] or (a["graph_open_at_end"] and not interrupted):
        v.append({"clause": "C03.graph_not_bracketed", "sig": {"entry": "direct_graphs", "after": interrupted or "-"},
                  "msg": f"graph() interrupted by {interrupted}; the caller carried on with the same stream "
                         f"(refused {refused_later} later graphs): {a['implicit_graph_close']} graph_start rows inside an "
                         f"open graph, open at end: {a['graph_open_at_end']}"})
    return v, key


def generate(rng, run, tier):
    if rng.random() < 0.08:
        return gen_direct(rng, run, tier)
    if rng.random() < 0.05:
        return gen_direct_graphs(rng, run, tier)
    if rng.random() < 0.12:
        # several containers written through one shared stream (grouped writes, incl. a shared GraphStream)
        from checks import c07
        plan = c07.gen_grouped(rng)
        plan["kind"] = "grouped"
        return plan
    if rng.random() < 0.6:
        plan = c01.gen_plan(rng, run, tier)
    else:
        plan = c02.generate(rng, run, tier)
    cfg = plan["cfg"]
    if cfg["entry"] in ("frames_sink", "graph_serialize", "grouped_file") and rng.random() < 0.4:
        cfg["ns"] = True
        pools = W.Pools(rng, 3, 3, 1, rdflib_safe=cfg["integration"] == "rdflib")
        nss = W.gen_namespaces(rng, pools, rng.randint(0, 5), rdflib_safe=cfg["integration"] == "rdflib")
        stmts, _ = nodes.split_ops(plan["ops"])
        mp, mn, md = cfg["max_prefixes"], cfg["max_names"], cfg["max_datatypes"]
        need = W.max_needs(stmts, nss, prefix_enabled=mp > 0, graphs_type=cfg["physical"] == "GRAPHS")
        if mp:
            cfg["max_prefixes"] = max(mp, need[0])
        cfg["max_names"] = max(mn, need[1])
        plan["ops"] = [["ns", p, i] for p, i in nss] + plan["ops"]
    plan.pop("consumer", None)
    plan.pop("frontend", None)
    return plan


def expected_items(cfg, stmts):
    if cfg["integration"] == "generic":
        return [T.norm_stmt(st) for st in stmts]
    return c02.expected_set(stmts)


def execute(plan, sim):
    import warnings
    warnings.simplefilter("ignore")
    if plan.get("kind") == "direct":
        return execute_direct(plan, sim)
    if plan.get("kind") == "direct_graphs":
        return execute_direct_graphs(plan, sim)
    cfg = plan["cfg"]
    stmts, nss = nodes.split_ops(plan["ops"])
    sim.count(cfg["integration"] + "_streams")
    sim.count("physical_" + cfg["physical"])
    try:
        if plan.get("kind") == "grouped":
            from checks import c07
            sim.count("shared_stream_writes")
            data = c07.write_grouped(cfg, stmts, cfg["groups"], nss)
        else:
            data = nodes.serialize(cfg, plan["ops"], sim)
    except Exception as e:  # noqa: BLE001
        return [{"clause": "C03.serialize_raised", "sig": {"exc": type(e).__name__},
                 "msg": f"serializer raised {type(e).__name__}: {e}"}], None
    r = refdec.decode_stream(data, True if plan.get("kind") == "grouped" else nodes.wrote_delimited(cfg), strict=True)
    a = r.audit
    for k in ("zero_name_ids", "zero_prefix_ids", "zero_entry_ids"):
        if a[k]:
            sim.count(k)
    if sum(a["evictions"]):
        sim.count("evictions")
    if a["options_rows"] > 1:
        sim.count("repeated_options")
    if a["namespace_rows"]:
        sim.count("ns_streams")
    key = None
    if len(stmts) >= 2 and sum(a["entries"]):
        key = (repr(sorted(cfg.items())), repr(stmts))
    if not r.ok:
        e = r.error
        return [{"clause": "C03.invalid_stream", "sig": {"cls": e["cls"]},
                 "msg": f"reference decoder rejects the stream at frame {e['frame']} row {e['row']}: "
                        f"{e['cls']}: {e['msg']}"}], key
    v = []
    if a["implicit_graph_close"] or a["graph_open_at_end"]:
        v.append({"clause": "C03.graph_not_bracketed", "sig": {},
                  "msg": f"implicit closes={a['implicit_graph_close']} open at end={a['graph_open_at_end']}"})
    if not cfg["ns"] and a["namespace_rows"]:
        v.append({"clause": "C03.namespace_rows_with_option_off", "sig": {}, "msg": "namespace rows written"})
    # ("version 2 precisely when declarations are enabled" is C13's clause; C03 only needs namespace rows to appear in
    #  version-2 streams, which the strict reference decoder enforces)
    got = [norm_item(i) for i in r.statements()]
    exp = expected_items(cfg, stmts)
    if isinstance(exp, set):
        if set(got) != exp or len(got) < len(exp):
            v.append({"clause": "C03.denotes_other_data", "sig": {"integration": "rdflib"},
                      "msg": f"missing={sorted(exp - set(got), key=repr)[:2]!r} "
                             f"extra={sorted(set(got) - exp, key=repr)[:2]!r}"})
    else:
        for x in c01.compare_seq("C03", exp, got):
            x["clause"] = "C03.denotes_other_data"
            x["sig"] = {"integration": "generic", **x.get("sig", {})}
            v.append(x)
    return v, key


def norm_item(st):
    return tuple(T.norm(t) for t in st)
