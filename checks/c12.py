"""C12 - streams are isolated and serialization is deterministic."""
from __future__ import annotations

import copy
import hashlib
import io
import json
import os
import subprocess
import sys

from checks import c01, c02, c04
from simkit import coop, nodes, workload as W
from simkit import terms as T
from simkit.kernel import HarnessError, Sim
from simkit.threads import BatonScheduler

ID = "C12"
LEVEL = "exploration"
TECHNIQUE = ('deterministic simulation of interleavings: engine A (generator steps and statement-level nesting chosen by the tape, neighbour faults), engine B (real threads, baton passing, settrace line-event pre-emption), child interpreters under four PYTHONHASHSEED values; oracle = bytes of the solo run')
LEVEL_NOTE = ('seeded search over schedules; pre-emption only at Python line boundaries inside pyjelly')
OPTIMIZED_EVERY = 25      # every 25th run is executed in a child interpreter started with python -O
COMPILED_EVERY = 25       # every 25th run (offset 12) is executed in a child that imports a mypyc build of the tree
RUNS = {"quick": 8000, "thorough": 120000}
CHUNK = 40
RULE = ("2-4 independent workloads (serialize / parse, either integration, sometimes sharing one SerializerOptions "
        "object) are run alone (baseline), then (coop) with their generator steps interleaved by the tape plus "
        "neighbour faults (streams created and never used, half-consumed and closed, failed mid-way), (threads) each "
        "in its own thread pre-empted at line events inside pyjelly, (subproc) alone in fresh interpreters under four "
        "PYTHONHASHSEED values and two different histories; oracle: byte-for-byte equal outputs; non-trivial = >=2 "
        "workloads with >=1 switch between them; distinct = distinct switch/step sequences (event-log digests)")
COMPONENTS = {"real": ["pyjelly serializers and parsers of both integrations, module/class level state, "
                       "SerializerOptions sharing", "CPython threads (real), sys.settrace"],
              "stub": ["scheduler: which generator / thread runs next (tape)", "neighbour workloads"]}
ASSUMPTIONS = ["pre-emption only at Python line boundaries inside pyjelly (not inside C calls of protobuf / io)",
               "hash-seed clause applied to explicit sequences only (rdflib containers iterate in hash order by design)",
               "rdflib Graph/Dataset containers iterate in hash order by design, so only explicit sequences are used"]
PROBES = ["shipped_statement_runs", "copied_statement_runs", "guessed_options_workloads", "namespace_workloads", "nested_steps", "coop_runs", "thread_runs", "subproc_runs", "shared_options", "neighbour_abandoned", "neighbour_failed",
          "neighbour_unused", "thread_switches", "parse_workloads", "ser_workloads", "rdflib_workloads", "twin_parsers_equal_options", "neighbour_abandoned_parser", "solo_again_after_history"]
SHRINK_LISTS = ["workloads"]


def gen_workload(rng, allow_rdflib_graphs_gen=False):
    integration = rng.choice(["generic", "generic", "rdflib"])
    physical = rng.choice(["TRIPLES", "QUADS", "GRAPHS"])
    stmts, flags, sizes, _ = c01.gen_workload(rng, physical, rdflib_safe=integration == "rdflib", max_n=12)
    mp, mn, md = c01.fit_tables(rng, stmts, [], sizes, physical)
    if md == 0 and W.has_datatypes(stmts):
        md = max(1, W.max_needs(stmts)[2])
    entry = rng.choice(["frames_gen", "frames_gen", "flat_frames"]) if physical != "GRAPHS" else "frames_gen"
    cfg = nodes.default_cfg(integration=integration, physical=physical, logical=1 if physical == "TRIPLES" else 2,
                            delimited=True, frame_size=rng.choice([1, 2, 3, 250]), max_names=mn, max_prefixes=mp,
                            max_datatypes=md, generalized=flags["generalized"], rdf_star=flags["rdf_star"], entry=entry)
    ops = [["stmt", *T.to_json(st)] for st in stmts]
    if integration == "generic" and rng.random() < 0.3:
        # a sink with namespace bindings: explicit, ordered input, so the bytes must not depend on hashing
        from simkit import workload as W2
        pools = W2.Pools(rng, 4, 4, 1)
        nss = W2.gen_namespaces(rng, pools, rng.randint(2, 6))
        need = W2.max_needs(stmts, nss, prefix_enabled=cfg["max_prefixes"] > 0, graphs_type=physical == "GRAPHS")
        if cfg["max_prefixes"]:
            cfg["max_prefixes"] = max(cfg["max_prefixes"], need[0])
        cfg["max_names"] = max(cfg["max_names"], need[1])
        cfg["ns"] = True
        cfg["entry"] = "frames_sink"
        ops = [["ns", p, i] for p, i in nss] + ops
    w = {"kind": rng.choice(["ser", "ser", "parse"]), "cfg": cfg,
         "ops": ops, "consumer": rng.choice(["flat", "grouped"])}
    if cfg["entry"] == "flat_frames" and rng.random() < 0.4:
        w["guess"] = True        # default tables are large, so every statement fits
    return w


def generate(rng, run, tier):
    if run % 400 == 397:      # (397: not one of the runs that go to a python -O / mypyc / pure-Python-protobuf child)
        k = 30 if tier == "quick" else 60
        return {"mode": "subproc", "workloads": [dict(gen_workload(rng, True), kind="ser") for _ in range(k)]}
    mode = "coop" if rng.random() < 0.7 else "threads"
    n = rng.choice([2, 2, 3, 4] + ([5, 6] if tier == "thorough" else []))
    wl = [gen_workload(rng) for _ in range(n)]
    share = rng.random() < 0.4
    if share and n >= 2:
        # two serializers built from one SerializerOptions object (same configuration)
        wl[1] = dict(wl[0], ops=list(reversed(wl[0]["ops"])), kind="ser")
        wl[0]["kind"] = "ser"
        wl[0]["shared"] = wl[1]["shared"] = True
    elif n >= 2 and rng.random() < 0.3:
        # two parsers over streams whose options rows are identical (same sizes, flags, types) but whose content
        # differs: anything keyed or cached by the stream's options is shared between them if it is shared at all
        import copy
        wl[1] = copy.deepcopy(wl[0])
        wl[1]["ops"] = [o for o in wl[0]["ops"] if o[0] == "ns"] + list(reversed([o for o in wl[0]["ops"] if o[0] != "ns"]))
        wl[0]["kind"] = wl[1]["kind"] = "parse"
        wl[0]["twin"] = wl[1]["twin"] = True
    neighbours = []
    if mode == "coop":
        for _ in range(rng.choice([0, 1, 2, 3])):
            nb = gen_workload(rng)
            nb["kind"] = "ser"
            nb["fate"] = rng.choice(["unused", "abandoned", "failed"])
            nb["when"] = rng.choice(["before", "during"])
            neighbours.append(nb)
        if wl[0].get("twin") and rng.random() < 0.5:
            # a parser over a stream with the very same options that is abandoned half way (inside a graph, for
            # GRAPHS streams): whatever it leaves behind must not reach the parsers that are observed
            import copy
            nb = copy.deepcopy(wl[0])
            nb.pop("twin", None)
            nb["fate"] = "abandoned_parser"
            nb["when"] = rng.choice(["before", "during"])
            neighbours.append(nb)
    return {"mode": mode, "workloads": wl, "neighbours": neighbours, "max_gap": rng.choice([3, 8, 24, 64])}


COUNT: dict = {}


def same_arity(a, b):
    return (a["cfg"]["physical"] == "TRIPLES") == (b["cfg"]["physical"] == "TRIPLES")


# ------------------------------------------------------------------ running one workload
def ser_steps(w, out: io.BytesIO, options=None, fail_at=None, sched=None, prebuilt=None):
    """Generator: each next() writes one frame of the serialization of workload w.
    prebuilt: the statement objects themselves (copied, or shipped from another process) instead of
    objects built here from the plan."""
    cfg = w["cfg"]
    stmts, _ = nodes.split_ops(w["ops"])
    m = nodes.integ_mod(cfg)
    from pyjelly.serialize.ioutils import write_delimited
    conv = nodes.conv_stmt(cfg)

    def source():
        if prebuilt is not None:
            yield from prebuilt
            return
        for i, st in enumerate(stmts):
            if fail_at is not None and i == fail_at:
                yield ("not", "a", "statement")[: 2]
            if sched is not None:
                sched.nested()          # producing a statement may involve running other streams
            yield conv(st)
    if options is None:
        options = nodes.make_options(cfg)
    if cfg["entry"] == "flat_frames" and w.get("guess"):
        # no options at all: the integration guesses them (module-level defaults must not be shared state)
        frames = m.flat_stream_to_frames(source())
    elif cfg["entry"] == "flat_frames":
        frames = m.flat_stream_to_frames(source(), options)
    elif cfg["entry"] == "frames_sink":
        # ordered container with namespace bindings (generic sinks keep insertion order)
        _, nss = nodes.split_ops(w["ops"])
        stream = nodes.make_stream(cfg, options)
        frames = m.stream_frames(stream, nodes.make_container(cfg, stmts, nss))
    else:
        stream = nodes.make_stream(cfg, options)
        frames = m.stream_frames(stream, source())
    for fr in frames:
        write_delimited(fr, out)
        yield


def parse_steps(w, data: bytes, result: list):
    cfg = w["cfg"]
    if w["consumer"] == "flat":
        for it in nodes.parse_flat(cfg["integration"], io.BytesIO(data)):
            result.append(it)
            yield
    else:
        for sts, nss in nodes.parse_grouped(cfg["integration"], io.BytesIO(data)):
            result.append((sorted(sts, key=repr), nss))
            yield


def shippable(w) -> bool:
    return w["cfg"]["entry"] != "frames_sink"


def statement_objects(w):
    stmts, _ = nodes.split_ops(w["ops"])
    conv = nodes.conv_stmt(w["cfg"])
    return [conv(st) for st in stmts]


def solo(w, prebuilt=None):
    """Run workload w alone. Returns (bytes written, parse result | None)."""
    if w["cfg"].get("ns"):
        COUNT["ns"] = COUNT.get("ns", 0) + 1
    out = io.BytesIO()
    for _ in ser_steps(w, out, prebuilt=prebuilt):
        pass
    data = out.getvalue()
    if w["kind"] == "ser":
        return data, None
    res: list = []
    for _ in parse_steps(w, data, res):
        pass
    return data, res


def outcome_digest(data, res):
    h = hashlib.sha256(data)
    if res is not None:
        h.update(repr(res).encode("utf-8", "backslashreplace"))
    return h.hexdigest()


# ------------------------------------------------------------------ engine A
POLLUTED = {"by_run_with_violation": False}


def base_runs(wl):
    """Every workload alone, before anything else of this run exists.  State that an EARLIER run of this worker
    process left behind in pyjelly can make even this fail - only on a tree where that earlier run has itself
    reported a violation (each run ends by running its workloads alone again); such a run is skipped, not judged,
    because its plan alone would not reproduce the failure."""
    try:
        return [solo(w) for w in wl]
    except HarnessError:
        raise
    except Exception as e:  # noqa: BLE001
        from simkit.kernel import SkipRun
        if POLLUTED["by_run_with_violation"]:
            raise SkipRun(f"state left by an earlier violating run of this process: {type(e).__name__}") from None
        if type(e).__module__.startswith("pyjelly."):
            # the writer or reader refuses the generated workload even alone (never on the unchanged tree, where the
            # tables are fitted to the statements): nothing to compare an interleaved run with; other properties'
            # checks judge the refusal itself
            raise SkipRun(f"workload refused when run alone: {type(e).__name__}: {e}") from None
        raise


def coop_side(plan, sim):
    sim.count("coop_runs")
    wl = plan["workloads"]
    base = base_runs(wl)
    sched = coop.Scheduler(sim)
    outs = [io.BytesIO() for _ in wl]
    results = [[] for _ in wl]
    shared_opts = None
    tasks = []
    # neighbours that exist before the observed workloads start
    ghosts = []
    for nb in plan.get("neighbours", []):
        if nb["when"] == "before":
            run_neighbour(nb, sim, sched, immediate=True)
        else:
            ghosts.append(nb)
    for i, w in enumerate(wl):
        sim.count("parse_workloads" if w["kind"] == "parse" else "ser_workloads")
        if w.get("twin"):
            sim.count("twin_parsers_equal_options")
        if w["cfg"]["integration"] == "rdflib":
            sim.count("rdflib_workloads")
        if w["kind"] == "ser":
            opts = None
            if w.get("shared"):
                if shared_opts is None:
                    shared_opts = nodes.make_options(w["cfg"])
                    sim.count("shared_options")
                opts = shared_opts
            tasks.append(sched.spawn(f"W{i}", ser_steps(w, outs[i], opts, sched=sched)))
        else:
            tasks.append(sched.spawn(f"W{i}", parse_steps(w, base[i][0], results[i])))
    for nb in ghosts:
        run_neighbour(nb, sim, sched, immediate=False)
    sched.run()
    v = []
    for i, w in enumerate(wl):
        t = tasks[i]
        if t.error is not None:
            v.append({"clause": "C12.interleaved_run_raised", "sig": {"engine": "coop", "exc": type(t.error).__name__},
                      "msg": f"workload {i} raised {type(t.error).__name__}: {t.error} when interleaved; alone it ran"})
            continue
        v += compare(i, w, base[i], outs[i].getvalue() if w["kind"] == "ser" else base[i][0],
                     results[i] if w["kind"] == "parse" else None, "coop")
    if not v:
        # history: after everything above (neighbours created, abandoned, failed; the interleaved workloads) each
        # workload run alone once more gives what it gave alone before
        for i, w in enumerate(wl):
            try:
                again = solo(w)
            except Exception as e:  # noqa: BLE001
                v.append({"clause": "C12.depends_on_history", "sig": {"engine": "coop", "exc": type(e).__name__},
                          "msg": f"workload {i} ran alone before the other streams of this run existed; run alone "
                                 f"again after them it raised {type(e).__name__}: {e}"})
                break
            if again != base[i]:
                v.append({"clause": "C12.depends_on_history", "sig": {"engine": "coop", "kind": w["kind"]},
                          "msg": f"workload {i} ({w['kind']}) run alone after the other streams of this run gives "
                                 f"something else than alone before them"})
                break
        sim.count("solo_again_after_history")
    return v, (sim.digest() if len(wl) >= 2 else None)


def run_neighbour(nb, sim, sched, immediate):
    fate = nb["fate"]
    out = io.BytesIO()
    sim.fault("neighbour_" + fate)
    sim.count("neighbour_" + fate)
    if fate == "unused":
        nodes.make_stream(nb["cfg"])        # created, enrolled never, dropped
        return
    if fate == "abandoned_parser":
        data = solo(dict(nb, kind="ser"))[0]
        pgen = parse_steps(dict(nb, consumer="flat"), data, [])
        stop = max(1, len(nb["ops"]) // 2)

        def half():
            try:
                for k, _ in enumerate(pgen):
                    if k >= stop:
                        break
                    yield
            except Exception:  # noqa: BLE001
                pass
            pgen.close()
        if immediate:
            for _ in half():
                pass
        else:
            sched.spawn("N", half())
        return
    n = len(nb["ops"])
    gen = ser_steps(nb, out, fail_at=(n // 2 if fate == "failed" else None),
                    sched=None if immediate else sched)
    if immediate:
        try:
            for k, _ in enumerate(gen):
                if fate == "abandoned" and k >= 1:
                    gen.close()
                    break
        except Exception:  # noqa: BLE001
            pass
        return

    def ghost():
        try:
            for k, _ in enumerate(gen):
                if fate == "abandoned" and k >= 1:
                    gen.close()
                    return
                yield
        except Exception:  # noqa: BLE001
            return
    sched.spawn("N", ghost())


def compare(i, w, base, data, res, engine):
    v = []
    if data != base[0]:
        v.append({"clause": "C12.bytes_differ", "sig": {"engine": engine, "integration": w["cfg"]["integration"]},
                  "msg": f"workload {i} ({w['cfg']['integration']} {w['cfg']['physical']} {w['cfg']['entry']}): alone "
                         f"{len(base[0])} bytes sha {hashlib.sha256(base[0]).hexdigest()[:12]}, {engine} "
                         f"{len(data)} bytes sha {hashlib.sha256(data).hexdigest()[:12]}"})
    if res is not None and res != base[1]:
        v.append({"clause": "C12.parse_output_differs", "sig": {"engine": engine, "integration": w["cfg"]["integration"]},
                  "msg": f"workload {i}: parser output differs from the solo run: {c01.first_diff(base[1], res)}"})
    return v


# ------------------------------------------------------------------ engine B
def threads_side(plan, sim):
    sim.count("thread_runs")
    from simkit import repo
    wl = plan["workloads"]
    base = base_runs(wl)
    shared_opts = None
    jobs = []
    for i, w in enumerate(wl):
        opts = None
        if w.get("shared") and w["kind"] == "ser":
            if shared_opts is None:
                shared_opts = nodes.make_options(w["cfg"])
                sim.count("shared_options")
            opts = shared_opts

        def job(w=w, opts=opts, i=i):
            out = io.BytesIO()
            if w["kind"] == "ser":
                for _ in ser_steps(w, out, opts):
                    pass
                return out.getvalue(), None
            res: list = []
            for _ in parse_steps(w, base[i][0], res):
                pass
            return base[i][0], res
        jobs.append(job)
    sched = BatonScheduler(sim, os.path.join(repo.repo_root(), "pyjelly") + os.sep, max_gap=plan.get("max_gap", 24))
    results, errors = sched.run(jobs)
    v = []
    for i, w in enumerate(wl):
        if i in errors:
            e = errors[i]
            v.append({"clause": "C12.interleaved_run_raised", "sig": {"engine": "threads", "exc": type(e).__name__},
                      "msg": f"workload {i} raised {type(e).__name__}: {e} under the thread schedule; alone it ran"})
            continue
        data, res = results[i]
        v += compare(i, w, base[i], data, res, "threads")
    return v, (sim.digest() if sched.switches else None)


# ------------------------------------------------------------------ subprocesses: hash seeds and histories
CHILD = r"""
import sys, json, hashlib, os, pickle
sys.path.insert(0, sys.argv[1])
sys.dont_write_bytecode = True
from simkit import repo
repo.setup()
from checks import c12
plan = json.load(open(sys.argv[2]))
order = list(range(len(plan["workloads"])))
if sys.argv[3] == "rev":
    order.reverse()
out = {}
from simkit import refdec
for i in order:
    w = plan["workloads"][i]
    shipped = os.path.join(os.path.dirname(sys.argv[2]), "shipped-%d.pkl" % i)
    prebuilt = None
    if sys.argv[3] == "rev" and os.path.exists(shipped):
        # the statement objects were built in the parent process and arrive pickled (multiprocessing style)
        try:
            with open(shipped, "rb") as fh:
                prebuilt = pickle.load(fh)
        except Exception as e:
            out[i] = "statements-do-not-survive-pickling:" + type(e).__name__ + ":-"
            continue
    try:
        data, _ = c12.solo(w, prebuilt=prebuilt)
    except Exception as e:
        if prebuilt is None:
            raise
        out[i] = "raised-on-shipped-statements:" + type(e).__name__ + ":-"
        continue
    r = refdec.decode_stream(data, True, strict=False)
    bag = hashlib.sha256(repr(sorted(set(r.items), key=repr)).encode("utf-8", "backslashreplace")).hexdigest() if r.ok else "invalid"
    out[i] = hashlib.sha256(data).hexdigest() + ":" + bag
print(json.dumps(out))
"""


def subproc_side(plan, sim):
    sim.count("subproc_runs")
    import tempfile
    here = os.path.dirname(os.path.dirname(os.path.abspath(__file__)))
    wl = plan["workloads"]
    from simkit import refdec
    mine = {}
    copies = {}
    import copy
    import pickle
    for i, w in enumerate(wl):
        data = base_runs([w])[0][0]
        if shippable(w):
            # the same statement sequence as copies of the objects (copy.deepcopy): same bytes expected
            sim.count("copied_statement_runs")
            try:
                copies[i] = hashlib.sha256(solo(w, prebuilt=copy.deepcopy(statement_objects(w)))[0]).hexdigest()
            except Exception as e:  # noqa: BLE001
                copies[i] = f"raised {type(e).__name__}: {e}"
        r = refdec.decode_stream(data, True, strict=False)
        bag = hashlib.sha256(repr(sorted(set(r.items), key=repr)).encode("utf-8", "backslashreplace")).hexdigest() \
            if r.ok else "invalid"
        mine[str(i)] = hashlib.sha256(data).hexdigest() + ":" + bag
    tmp = tempfile.mkdtemp(prefix="c12-")
    pf = os.path.join(tmp, "plan.json")
    with open(pf, "w") as fh:
        json.dump({"workloads": wl}, fh)
    for i, w in enumerate(wl):
        if shippable(w):
            sim.count("shipped_statement_runs")
            with open(os.path.join(tmp, f"shipped-{i}.pkl"), "wb") as fh:
                pickle.dump(statement_objects(w), fh)
    outs = {}
    try:
        procs = []
        for hs, order in (("0", "fwd"), ("1", "rev"), ("7", "fwd"), ("4242", "rev")):
            env = dict(os.environ, PYTHONHASHSEED=hs, PYTHONDONTWRITEBYTECODE="1")
            procs.append((hs, order, subprocess.Popen([sys.executable, "-B", "-c", CHILD, here, pf, order], env=env,
                                                      stdout=subprocess.PIPE, stderr=subprocess.PIPE, text=True)))
        for hs, order, p in procs:
            try:
                so, se = p.communicate(timeout=900)
            except subprocess.TimeoutExpired:
                for _, _, q in procs:
                    q.kill()
                raise HarnessError(f"hash-seed child {hs} did not finish within 900 s") from None
            if p.returncode != 0:
                raise HarnessError(f"hash-seed child {hs} failed: {se[-800:]}")
            outs[(hs, order)] = json.loads(so.strip().splitlines()[-1])
            sim.event("child", hs, order, hashlib.sha256(so.encode()).hexdigest()[:16])
    finally:
        import shutil
        shutil.rmtree(tmp, ignore_errors=True)
    v = []
    for i, w in enumerate(wl):
        digests = {k: o[str(i)] for k, o in outs.items()}
        digests[("inproc", "-")] = mine[str(i)]
        if i in copies and copies[i] != mine[str(i)].split(":")[0]:
            v.append({"clause": "C12.bytes_depend_on_object_identity",
                      "sig": {"integration": w["cfg"]["integration"], "physical": w["cfg"]["physical"]},
                      "msg": f"workload {i}: deep copies of the statement objects gave {copies[i][:120]} instead of the "
                             f"bytes of the originals"})
        if len(set(digests.values())) != 1:
            cfg = w["cfg"]
            same_bag = len({d.split(":")[1] for d in digests.values()}) == 1
            v.append({"clause": "C12.bytes_depend_on_process", "sig": {"integration": cfg["integration"],
                                                                      "physical": cfg["physical"],
                                                                      "same_statements": same_bag},
                      "msg": f"workload {i} ({cfg['integration']} {cfg['physical']} {cfg['entry']}): output digests by "
                             f"(PYTHONHASHSEED, history order): { {f'{k[0]}/{k[1]}': d[:10] for k, d in digests.items()} }"})
    uniq = {}
    for x in v:
        uniq.setdefault(repr(sorted(x["sig"].items())), x)
    return list(uniq.values()), frozenset(mine.values())


def execute(plan, sim):
    import warnings
    warnings.simplefilter("ignore")
    n_ns = sum(1 for w in plan["workloads"] if w["cfg"].get("ns"))
    if n_ns:
        sim.count("namespace_workloads", n_ns)
    n_g = sum(1 for w in plan["workloads"] + plan.get("neighbours", []) if w.get("guess"))
    if n_g:
        sim.count("guessed_options_workloads", n_g)
    if plan["mode"] == "coop":
        res = coop_side(plan, sim)
    elif plan["mode"] == "threads":
        res = threads_side(plan, sim)
    else:
        res = subproc_side(plan, sim)
    if (res[0] if isinstance(res, tuple) else res):
        POLLUTED["by_run_with_violation"] = True
    return res
