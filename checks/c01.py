"""C01 - generic API round trip is lossless and order-preserving."""
from __future__ import annotations

import copy

from simkit import coop, nodes, workload as W
from simkit import terms as T
from simkit.pipe import open_frontend

ID = "C01"
LEVEL = "exploration"
TECHNIQUE = ('deterministic simulation (fault-free pipeline): seeded workload x knob swarm x read/step schedules, real writer -> simulated channel -> real reader, oracle = input sequence')
LEVEL_NOTE = ("sampling of inputs and configurations on the simulator's fault-free pipeline; no schedule or fault is in the property itself, the simulator contributes the seeded swarm (table sizes as cache sizes) and schedule variation; a clean batch is evidence, not proof")
OPTIMIZED_EVERY = 25      # every 25th run is executed in a child interpreter started with python -O
PBPY_EVERY = 50           # every 50th run (offset 6) is executed with protobuf's pure-Python backend
COMPILED_EVERY = 25       # every 25th run (offset 12) is executed in a child that imports a mypyc build of the tree
RUNS = {"quick": 60000, "thorough": 1500000}
RULE = ("seeded runs of the fault-free pipeline: statement sequence x knob swarm x read/step schedule; "
        "a run is non-trivial when it parsed >=2 statements; distinct = distinct "
        "(configuration, statement sequence) pairs")
COMPONENTS = {"real": ["pyjelly generic serializer (stream_frames, flat_/grouped_stream_to_file, "
                       "GenericStatementSink.serialize)", "pyjelly generic parsers", "protobuf upb",
                       "io.BufferedReader"],
              "stub": ["byte channel (simkit.pipe)", "input iterator / output sink"]}
ASSUMPTIONS = ["inputs and configurations are sampled, not enumerated",
               "first raw read delivers >=3 bytes (shorter first reads are C09's subject)"]
PROBES = ["str_subclass_spellings", "empty_sequences", "deep_nesting_runs", "nesting_over_97", "evictions", "zero_prefix_tables", "zero_datatype_tables", "quoted_depth2", "nondelimited",
          "physical_GRAPHS", "physical_QUADS", "interleaved_runs"]
SHRINK_LISTS = ["ops"]

TRIPLE_LOGICALS = [1, 1, 1, 0, 3, 13]
QUAD_LOGICALS = [2, 2, 2, 0, 4, 14, 114]
ENTRIES = ["frames_gen", "frames_gen", "frames_sink", "flat_file", "grouped_file", "sink_serialize",
           "flat_frames"]


def gen_workload(rng, physical, rdflib_safe=False, max_n=40, max_depth=3):
    flags = {
        "generalized": (not rdflib_safe) and rng.random() < 0.5,
        "rdf_star": (not rdflib_safe) and rng.random() < 0.5,
        "max_depth": rng.choice([1, 1, 2, max_depth]),
        "p_repeat": rng.choice([0.1, 0.3, 0.6]),
    }
    mp = rng.choice([0, 1, 2, 3, 4, 8, 16])
    mn = rng.choice([8, 8, 9, 10, 12, 16, 24, 64])
    md = rng.choice([0, 1, 2, 3, 4, 8])
    flags["datatypes"] = md > 0
    pools = W.Pools(rng, W.pool_size_for(rng, mp), W.pool_size_for(rng, mn), W.pool_size_for(rng, md),
                    rdflib_safe=rdflib_safe)
    n = rng.choice([1, 2, 3, 5, 8, 13, 21, 30, max_n])
    arity = 3 if physical == "TRIPLES" else 4
    stmts = W.gen_statements(rng, n, arity, flags, pools)
    return stmts, flags, (mp, mn, md), pools


def fit_tables(rng, stmts, nss, sizes, physical):
    mp, mn, md = sizes
    graphs = physical == "GRAPHS"
    need_p, need_n, need_d = W.max_needs(stmts, nss, prefix_enabled=mp > 0, graphs_type=graphs)
    if mp > 0:
        mp = max(mp, need_p)
    if mp == 0:
        _, need_n, _ = W.max_needs(stmts, nss, prefix_enabled=False, graphs_type=graphs)
    mn = max(mn, need_n, 8)
    if md > 0 or need_d:
        md = max(md, need_d)
    if rng.random() < 0.1:
        mp = rng.choice([mp, 150, 4096]) if mp else 0
        mn = rng.choice([mn, 4000, 4096])
    return mp, mn, md


def generate(rng, run, tier):
    plan = gen_plan(rng, run, tier)
    if rng.random() < 0.05:
        # every second occurrence of an IRI / label / datatype / language tag arrives as a str subclass with its
        # own equality, hash and __str__ (rdflib.URIRef, a (str, Enum) vocabulary member): same text, same term
        plan["cfg"]["odd_str"] = True
    if rng.random() < 0.004 and plan["cfg"]["entry"] in ("frames_gen", "flat_file", "flat_frames"):
        plan["ops"] = []        # the empty sequence is a finite statement sequence too (C01 only)
    elif rng.random() < 0.006:
        # a quoted triple nested close to protobuf's limit of 100 nested messages (frame > row > statement > ...)
        depth = rng.choice([60, 90, 95, 96, 97, 98, 99, 100, 101, 130])
        cfg = plan["cfg"]
        s, p, o = ("iri", "http://deep.example/s"), ("iri", "http://deep.example/p"), ("lit", "o", None, None)
        q = (s, p, o)
        slot = rng.choice([0, 2, 2])
        for _ in range(depth):
            q = (("triple", *q), p, o) if slot == 0 else (s, p, ("triple", *q))
        if cfg["physical"] != "TRIPLES":
            q = (*q, ("default",))
        plan["ops"].append(["stmt", *T.to_json(q)])
        if cfg.get("groups"):
            cfg["groups"][-1] += 1
        cfg["rdf_star"] = True
        cfg["max_names"] = min(4096, cfg["max_names"] + 2)
        if cfg["max_prefixes"]:
            cfg["max_prefixes"] = min(4096, cfg["max_prefixes"] + 1)
        plan["deep_nesting"] = depth
    return plan


def gen_plan(rng, run, tier):
    """Plan generator shared with the other checks (never empty)."""
    physical = rng.choice(["TRIPLES", "TRIPLES", "QUADS", "GRAPHS"])
    entry = rng.choice(ENTRIES)
    if entry in ("flat_file", "flat_frames", "grouped_file", "sink_serialize") and physical == "GRAPHS":
        # these entry points derive the stream class from the data: triples->TRIPLES, quads->QUADS
        physical = "QUADS"
    stmts, flags, sizes, _ = gen_workload(rng, physical, max_n=40 if tier == "quick" else rng.choice([40, 40, 120, 300]))
    mp, mn, md = fit_tables(rng, stmts, [], sizes, physical)
    delimited = True
    logical = rng.choice(TRIPLE_LOGICALS if physical == "TRIPLES" else QUAD_LOGICALS)
    if entry in ("flat_file", "flat_frames", "grouped_file", "sink_serialize"):
        logical = 1 if physical == "TRIPLES" else 2
    elif rng.random() < 0.25:
        delimited = False
        logical = 1 if physical == "TRIPLES" else 2
    cfg = nodes.default_cfg(
        physical=physical, logical=logical, delimited=delimited,
        frame_size=rng.choice([1, 1, 2, 3, 4, 5, 8, 250, 10000]),
        max_names=mn, max_prefixes=mp, max_datatypes=md,
        generalized=flags["generalized"], rdf_star=flags["rdf_star"], entry=entry,
        stream_name=rng.choice(["", "", "s", "zażółć"]),
    )
    if entry == "grouped_file":
        cfg["groups"] = split_groups(rng, len(stmts))
        if rng.random() < 0.3:
            # a group without statements (first, in the middle or last) adds nothing to the sequence
            cfg["groups"].insert(rng.randint(0, len(cfg["groups"])), 0)
    return {
        "cfg": cfg,
        "ops": [["stmt", *T.to_json(st)] for st in stmts],
        "consumer": rng.choice(["flat", "flat", "to_graph", "sink_parse"]),
        "frontend": rng.choice(["bytesio", "buffered", "raw", "buffered", "seekable_buffered"]),
        "interleave": rng.random() < 0.7,
    }


def split_groups(rng, n):
    groups = []
    left = n
    while left > 0:
        k = rng.randint(1, left)
        groups.append(k)
        left -= k
    return groups


def simplify(plan):
    for key, val in (("frontend", "bytesio"), ("consumer", "flat"), ("interleave", False)):
        if plan.get(key) != val:
            p = copy.deepcopy(plan)
            p[key] = val
            yield p
    cfg = plan["cfg"]
    for key, val in (("entry", "frames_gen"), ("frame_size", 250), ("stream_name", "")):
        if cfg.get(key) != val:
            p = copy.deepcopy(plan)
            p["cfg"][key] = val
            yield p


def consumer_factory(integration, kind):
    if kind == "flat":
        return lambda f: nodes.parse_flat(integration, f)
    if kind == "to_graph":
        def fn(f):
            sts, nss = nodes.parse_to_graph(integration, f)
            yield from nss
            yield from sts
        return fn
    if kind == "sink_parse":
        def fn2(f):
            sts, nss = nodes.parse_to_graph(integration, f, via_plugin=True)
            yield from nss
            yield from sts
        return fn2
    raise ValueError(kind)


def roundtrip(plan, sim, policy="safe"):
    """Serialize with the real writer, parse with the real reader. Returns
    (data|None, items, ser_exc, parse_exc)."""
    cfg = plan["cfg"]
    ops = plan["ops"]
    integration = cfg["integration"]
    factory = consumer_factory(plan.get("parse_integration", integration), plan["consumer"])
    live = cfg["entry"] in ("frames_gen", "frames_sink", "flat_frames", "flat_frames_guess") \
        and plan["frontend"] in ("raw", "buffered")
    if live:
        sim.count("interleaved_runs")
        items, cerr, perr, pipe = coop.run_pipeline(
            sim, cfg, ops, factory, frontend=plan["frontend"], policy=policy,
            interleave=plan.get("interleave", True))
        return bytes(pipe.buf), items, perr, cerr
    try:
        data = nodes.serialize(cfg, ops, sim)
    except Exception as e:  # noqa: BLE001
        return None, [], e, None
    fobj, _ = open_frontend(plan["frontend"], sim, data=data, policy=policy)
    items, cerr = nodes.run_collect(factory(fobj))
    return data, items, None, cerr


def compare_seq(cid, expected, got):
    """Position-wise comparison of two neutral item sequences -> list of violations."""
    if len(expected) != len(got):
        return [{"clause": f"{cid}.length", "sig": {},
                 "msg": f"expected {len(expected)} items, got {len(got)}; first diff at "
                        f"{first_diff(expected, got)}"}]
    for i, (e, g) in enumerate(zip(expected, got)):
        if e != g:
            slot = next((j for j in range(min(len(e), len(g))) if e[j] != g[j]), -1)
            kind = e[slot][0] if 0 <= slot < len(e) and isinstance(e[slot], tuple) else "?"
            return [{"clause": f"{cid}.mismatch", "sig": {"slot": slot, "kind": kind},
                     "msg": f"item {i} slot {slot}: expected {e!r} got {g!r}"}]
    return []


def first_diff(a, b):
    for i, (x, y) in enumerate(zip(a, b)):
        if x != y:
            return i, x, y
    return min(len(a), len(b)), None, None


def probes(sim, plan, data):
    cfg = plan["cfg"]
    if cfg["max_prefixes"] == 0:
        sim.count("zero_prefix_tables")
    if cfg["max_datatypes"] == 0:
        sim.count("zero_datatype_tables")
    if not cfg["delimited"]:
        sim.count("nondelimited")
    sim.count("physical_" + cfg["physical"])


def execute(plan, sim):
    cfg = plan["cfg"]
    stmts, _ = nodes.split_ops(plan["ops"])
    expected = [T.norm_stmt(st) for st in stmts]
    data, items, serr, perr = roundtrip(plan, sim)
    probes(sim, plan, data)
    if cfg.get("odd_str"):
        sim.count("str_subclass_spellings")
    if any(T.term_depth(t) >= 2 for st in stmts for t in st):
        sim.count("quoted_depth2")
    deep = plan.get("deep_nesting", 0)
    if deep:
        sim.count("deep_nesting_runs")
        if deep >= 98:
            sim.count("nesting_over_97")
    if serr is not None:
        sig = {"exc": type(serr).__name__}
        if deep:
            sig["nesting_over_97"] = deep >= 98
        return [{"clause": "C01.serialize_raised", "sig": sig,
                 "msg": f"serializer raised {type(serr).__name__}: {serr}" + (f" (quoted triples nested {deep} deep)" if deep else "")}], None
    if not stmts:
        sim.count("empty_sequences")
    if perr is not None:
        sig = {"exc": type(perr).__name__, "empty_input": not stmts}
        if deep:
            sig["nesting_over_97"] = deep >= 98
        return [{"clause": "C01.parse_raised", "sig": sig,
                 "msg": f"parser raised {type(perr).__name__}: {perr}" + (f" (quoted triples nested {deep} deep)" if deep else "")}], None
    if cfg["physical"] == "TRIPLES" and plan["consumer"] != "flat":
        pass
    v = compare_seq("C01", expected, items)
    if data is not None:
        from simkit import refdec
        r = refdec.decode_stream(data, nodes.wrote_delimited(cfg))
        if r.ok:
            if sum(r.audit["evictions"]):
                sim.count("evictions")
    key = (tuple(sorted(cfg.items(), key=lambda kv: kv[0])).__repr__(), repr(expected)) if len(expected) >= 2 else None
    return v, key
