"""C05 - writer and reader lookup tables stay mirrored for all histories (TWIN engine)."""
from __future__ import annotations

import copy

from simkit import terms as T
from simkit.kernel import HarnessError

ID = "C05"
LEVEL = "exploration"
TECHNIQUE = ('deterministic simulation, replica coupling (TWIN): seeded biased random walks, real LookupEncoder/TermEncoder/encode_triple coupled event by event to real LookupDecoder/Decoder, mirrored-state invariant after every event')
LEVEL_NOTE = ('seeded walks with a saturation figure, not closure of the state space (that would be model checking)')
OPTIMIZED_EVERY = 25      # every 25th run is executed in a child interpreter started with python -O
PBPY_EVERY = 50           # every 50th run (offset 6) is executed with protobuf's pure-Python backend
COMPILED_EVERY = 25       # every 25th run (offset 12) is executed in a child that imports a mypyc build of the tree
KEY_SAMPLE = {"thorough": 64}    # joint states are counted on a 1/64 hash sample in the thorough tier (tens of millions)
RUNS = {"quick": 40000, "thorough": 1500000}
RULE = ("seeded biased random walks (hot keys, cyclic sweeps over size+1 keys, bursts, uniform) of 1..400 lookups "
        "over table sizes 1..8 with size+2 keys, real LookupEncoder coupled event by event to the real LookupDecoder "
        "under the name / prefix (with empty prefix) / datatype index rules, real TermEncoder.encode_iri / "
        "encode_literal rows fed to the real Decoder (names 8..12), and whole statements (real encode_triple rows, all "
        "entry rows before the statement row, tables possibly smaller than one statement: refusal allowed, wrong "
        "resolution not); invariant checked after every event; "
        "evaluations = lookup events; distinct_nontrivial = distinct joint writer/reader states canonicalised "
        "under key renaming (LRU order, key->index, last_assigned, last_reused, reader table, reader last_*)")
COMPONENTS = {"real": ["serialize.lookup.Lookup / LookupEncoder", "parse.lookup.LookupDecoder",
                       "serialize.encode.TermEncoder (encode_iri, encode_literal)",
                       "parse.decode.Decoder (ingest_*_entry, decode_iri, decode_literal)"],
              "stub": ["the wire: rows / indices are handed over directly, one event at a time"]}
ASSUMPTIONS = ["sampling of histories, not closure of the state space (the saturation figure "
               "distinct_new_in_last_10pct_of_runs is reported instead)"]
PROBES = ["evictions", "zero_entry_ids", "zero_term_ids", "size_1", "size_8", "rule_name", "rule_prefix",
          "rule_datatype", "level_terms", "level_rows", "rows_refused", "empty_prefix_uses"]
SHRINK_LISTS = ["ops"]


def gen_walk(rng, nkeys, length):
    mode = rng.choice(["uniform", "hot", "sweep", "burst", "mixed"])
    out = []
    i = 0
    while len(out) < length:
        m = mode if mode != "mixed" else rng.choice(["uniform", "hot", "sweep", "burst"])
        if m == "uniform":
            out.append(rng.randrange(nkeys))
        elif m == "hot":
            out.append(rng.choice([0, 0, 0, 1, rng.randrange(nkeys)]))
        elif m == "sweep":
            span = rng.choice([nkeys - 1, nkeys, max(1, nkeys - 2)])
            for _ in range(rng.randint(1, 2 * span)):
                out.append(i % span)
                i += 1
        else:
            k = rng.randrange(nkeys)
            out.extend([k] * rng.randint(1, 4))
    return out[:length]


def generate(rng, run, tier):
    level = rng.choice(["tables", "tables", "terms", "rows"])
    if level == "rows":
        # whole statements: all entry rows of a statement travel before the row that references them
        names = rng.choice([8, 8, 9, 10])
        prefixes = rng.choice([0, 1, 2, 3, 4])
        datatypes = rng.choice([1, 2, 3])
        length = rng.choice([3, 10, 40, 120, 400] + ([1500] if tier == "thorough" else []))
        ops = []
        for _ in range(length):
            st = []
            for slot in range(3):
                if slot == 2 and rng.random() < 0.3:
                    st.append(["lit", rng.randrange(datatypes + 2)])
                else:
                    st.append(["iri", rng.randrange(max(1, prefixes) + 2), rng.randrange(names + 2)])
            ops.append(st)
        return {"level": level, "names": names, "prefixes": prefixes, "datatypes": datatypes, "ops": ops}
    if level == "tables":
        size = rng.randint(1, 8)
        rule = rng.choice(["name", "prefix", "datatype"])
        nkeys = size + 2
        length = rng.choice([1, 5, 20, 60, 150, 400] + ([1500, 4000] if tier == "thorough" else []))
        return {"level": level, "size": size, "rule": rule, "empty_key": rng.random() < 0.5,
                "ops": gen_walk(rng, nkeys, length)}
    names = rng.choice([8, 8, 9, 12])
    prefixes = rng.choice([0, 1, 2, 3, 4])
    datatypes = rng.choice([1, 2, 3])
    nkeys = names + 2
    length = rng.choice([5, 20, 60, 150, 400] + ([1500] if tier == "thorough" else []))
    ops = []
    for k in gen_walk(rng, nkeys, length):
        if rng.random() < 0.25:
            ops.append(["lit", rng.randrange(datatypes + 2)])
        else:
            ops.append(["iri", rng.randrange(max(1, prefixes) + 2), k])
    return {"level": level, "names": names, "prefixes": prefixes, "datatypes": datatypes, "ops": ops}


def canon_state(enc, dec):
    ren = {}
    order = []
    for k, idx in enc.lookup.data.items():
        ren.setdefault(k, len(ren))
        order.append((ren[k], idx))
    table = tuple((ren.setdefault(v, len(ren)) if v is not None else None) for v in dec.data)
    return (tuple(order), enc.last_assigned_index, enc.last_reused_index, table, dec.last_assigned_index,
            dec.last_reused_index)


def check_mirror(enc, dec, size, what):
    if len(enc.lookup.data) > size:
        return f"{what}: {len(enc.lookup.data)} live writer entries > size {size}"
    for k, idx in enc.lookup.data.items():
        if not 1 <= idx <= size:
            return f"{what}: writer index {idx} outside 1..{size}"
        if dec.data[idx - 1] != k:
            return f"{what}: writer holds {k!r} at {idx}, reader holds {dec.data[idx - 1]!r}"
    return None


def run_tables(plan, sim):
    from pyjelly.parse.lookup import LookupDecoder
    from pyjelly.serialize.lookup import LookupEncoder
    size, rule = plan["size"], plan["rule"]
    sim.count(f"size_{size}") if size in (1, 8) else None
    sim.count("rule_" + rule)
    enc = LookupEncoder(lookup_size=size)
    dec = LookupDecoder(lookup_size=size)
    keys = [f"k{i}" for i in range(size + 2)]
    if plan["empty_key"] and rule == "prefix":
        keys[0] = ""
    states = set()
    for step, ki in enumerate(plan["ops"]):
        key = keys[ki % len(keys)]
        sim.count("evaluations")
        had = len(enc.lookup.data)
        eid = enc.encode_entry_index(key)
        if eid is not None:
            if not 0 <= eid <= size:
                return fail("entry_id_range", rule, f"step {step}: entry id {eid} outside [0,{size}]"), states
            if eid == 0:
                sim.count("zero_entry_ids")
            if had == size:
                sim.count("evictions")
            dec.assign_entry(index=eid, value=key)
        if rule == "name":
            tid = enc.encode_name_term_index(key)
            got = dec.decode_name_term_index(tid)
        elif rule == "prefix":
            if key == "":
                sim.count("empty_prefix_uses")
            tid = enc.encode_prefix_term_index(key)
            got = dec.decode_prefix_term_index(tid)
        else:
            tid = enc.encode_datatype_term_index(key)
            got = dec.decode_datatype_term_index(tid)
        sim.event("use", ki, eid, tid)
        if tid == 0:
            sim.count("zero_term_ids")
        if not 0 <= tid <= size:
            return fail("term_id_range", rule, f"step {step}: term id {tid} outside [0,{size}]"), states
        if got != key:
            return fail("resolves_to_other_string", rule,
                        f"step {step}: writer meant {key!r} (entry id {eid}, term id {tid}), reader resolved {got!r}"), states
        err = check_mirror(enc, dec, size, f"step {step}")
        if err:
            return fail("tables_diverged", rule, err), states
        states.add((rule, size, canon_state(enc, dec)))
    return [], states


def fail(clause, rule, msg):
    return [{"clause": "C05." + clause, "sig": {"rule": rule}, "msg": msg}]


def run_terms(plan, sim):
    from pyjelly import jelly
    from pyjelly.integrations.generic.parse import GenericTriplesAdapter
    from pyjelly.options import LookupPreset, StreamParameters, StreamTypes
    from pyjelly.parse.decode import Decoder, ParserOptions
    from pyjelly.serialize.encode import TermEncoder
    sim.count("level_terms")
    preset = LookupPreset(max_names=plan["names"], max_prefixes=plan["prefixes"], max_datatypes=plan["datatypes"])
    enc = TermEncoder(lookup_preset=preset)
    po = ParserOptions(StreamTypes(jelly.PHYSICAL_STREAM_TYPE_TRIPLES, jelly.LOGICAL_STREAM_TYPE_FLAT_TRIPLES),
                       preset, StreamParameters())
    dec = Decoder(adapter=GenericTriplesAdapter(po))
    prefixes = ["", "http://a/", "http://b#", "http://c/d/", "urn:x:", "http://e/f#"]
    states = set()
    for step, op in enumerate(plan["ops"]):
        sim.count("evaluations")
        if op[0] == "iri":
            iri_s = prefixes[op[1] % len(prefixes)] + f"n{op[2]}"
            msg = jelly.RdfIri()
            rows = enc.encode_iri(iri_s, msg)
        else:
            dt = f"http://dt/{op[1]}"
            msg = jelly.RdfLiteral()
            rows = enc.encode_literal(lex="x", datatype=dt, literal=msg)
        for row in rows:
            inner = getattr(row, row.WhichOneof("row"))
            if not 0 <= inner.id <= 4096:
                return fail("entry_id_range", "terms", f"step {step}: id {inner.id}"), states
            dec.decode_row(inner)
        sim.event("term", op, len(rows))
        if op[0] == "iri":
            got = dec.decode_iri(msg)._iri
            if got != iri_s:
                return fail("resolves_to_other_string", "terms",
                            f"step {step}: writer encoded {iri_s!r} as prefix_id={msg.prefix_id} name_id={msg.name_id}, "
                            f"reader resolved {got!r}"), states
        else:
            got = dec.decode_literal(msg)._datatype
            if got != dt:
                return fail("resolves_to_other_string", "terms",
                            f"step {step}: datatype {dt!r} id={msg.datatype} resolved to {got!r}"), states
        for name, e, d, size in (("names", enc.names, dec.names, plan["names"]),
                                 ("prefixes", enc.prefixes, dec.prefixes, plan["prefixes"]),
                                 ("datatypes", enc.datatypes, dec.datatypes, plan["datatypes"])):
            if size:
                err = check_mirror(e, d, size, f"step {step} {name}")
                if err:
                    return fail("tables_diverged", "terms", err), states
        states.add(("terms", plan["names"], plan["prefixes"], canon_state(enc.names, dec.names),
                    canon_state(enc.prefixes, dec.prefixes) if plan["prefixes"] else None))
    return [], states


def run_rows(plan, sim):
    """Real encode_triple rows handed, statement by statement, to the real Decoder."""
    from pyjelly import jelly
    from pyjelly.errors import JellyConformanceError
    from pyjelly.integrations.generic.generic_sink import IRI, BlankNode, Literal
    from pyjelly.integrations.generic.parse import GenericTriplesAdapter
    from pyjelly.integrations.generic.serialize import GenericSinkTermEncoder
    from pyjelly.options import LookupPreset, StreamParameters, StreamTypes
    from pyjelly.parse.decode import Decoder, ParserOptions
    from pyjelly.serialize.encode import encode_triple
    sim.count("level_rows")
    preset = LookupPreset(max_names=plan["names"], max_prefixes=plan["prefixes"], max_datatypes=plan["datatypes"])
    enc = GenericSinkTermEncoder(lookup_preset=preset)
    po = ParserOptions(StreamTypes(jelly.PHYSICAL_STREAM_TYPE_TRIPLES, jelly.LOGICAL_STREAM_TYPE_FLAT_TRIPLES),
                       preset, StreamParameters())
    dec = Decoder(adapter=GenericTriplesAdapter(po))
    prefixes = ["", "http://a/", "http://b#", "http://c/d/", "urn:x:", "http://e/f#"]
    repeated = [None, None, None, None]
    states = set()
    for step, st in enumerate(plan["ops"]):
        sim.count("evaluations")
        terms = []
        for t in st:
            if t[0] == "iri":
                terms.append(IRI(prefixes[t[1] % len(prefixes)] + f"n{t[2]}"))
            else:
                terms.append(Literal("x", None, f"http://dt/{t[1]}"))
        try:
            rows = encode_triple(terms, enc, repeated)
        except Exception:  # noqa: BLE001  (whatever the refusal is called)
            sim.count("rows_refused")
            sim.event("refused", step)
            break               # refused rather than corrupted: allowed; the encoder state is not usable afterwards
        got = None
        for row in rows:
            inner = getattr(row, row.WhichOneof("row"))
            out = dec.decode_row(inner)
            if row.WhichOneof("row") == "triple":
                got = out
        sim.event("stmt", step, len(rows))
        want = tuple(terms)
        if got is None or tuple(got) != want:
            return fail("resolves_to_other_string", "rows",
                        f"statement {step}: writer encoded {want!r}, reader resolved {tuple(got) if got else None!r} "
                        f"(tables names={plan['names']} prefixes={plan['prefixes']} datatypes={plan['datatypes']})"), states
        for name, e, d, size in (("names", enc.names, dec.names, plan["names"]),
                                 ("prefixes", enc.prefixes, dec.prefixes, plan["prefixes"]),
                                 ("datatypes", enc.datatypes, dec.datatypes, plan["datatypes"])):
            if size:
                err = check_mirror(e, d, size, f"statement {step} {name}")
                if err:
                    return fail("tables_diverged", "rows", err), states
        states.add(("rows", plan["names"], plan["prefixes"], canon_state(enc.names, dec.names),
                    canon_state(enc.prefixes, dec.prefixes) if plan["prefixes"] else None))
    return [], states


def execute(plan, sim):
    try:
        if plan["level"] == "tables":
            v, states = run_tables(plan, sim)
        elif plan["level"] == "rows":
            v, states = run_rows(plan, sim)
        else:
            v, states = run_terms(plan, sim)
    except Exception as e:  # noqa: BLE001
        import traceback
        return [{"clause": "C05.raised", "sig": {"exc": type(e).__name__, "level": plan["level"]},
                 "msg": f"{type(e).__name__}: {e} :: {traceback.format_exc()[-400:]}"}], None
    return v, frozenset(states) if states else None
