"""C07 - frame boundaries never change content; grouped I/O is one sink per frame."""
from __future__ import annotations

import contextvars
import copy
import io

from checks import c01, c02, c04
from simkit import nodes, refdec, refenc, wire, workload as W
from simkit import terms as T
from simkit.kernel import HarnessError

ID = "C07"
LEVEL = "exploration"
TECHNIQUE = ('deterministic simulation with the reframe fault: row sequence re-cut into frames by tape decisions (rows sliced, never re-encoded), flat and grouped real parsers; grouped writes through one shared stream')
LEVEL_NOTE = ('sampled streams and partitions')
OPTIMIZED_EVERY = 25      # every 25th run is executed in a child interpreter started with python -O
PBPY_EVERY = 50           # every 50th run (offset 6) is executed with protobuf's pure-Python backend
COMPILED_EVERY = 25       # every 25th run (offset 12) is executed in a child that imports a mypyc build of the tree
RUNS = {"quick": 40000, "thorough": 800000}
RULE = ("(reframe) the row sequence of a valid stream (real writer / reference encoder) is re-cut into frames at "
        "tape-chosen points with empty and metadata-bearing frames inserted, then parsed flat and grouped; (grouped "
        "write) sequences of graphs/datasets written through one shared stream with a grouped logical type; "
        "non-trivial = >=2 frames with statements; distinct = distinct (row sequence, partition) pairs")
COMPONENTS = {"real": ["pyjelly frame iterator, Decoder living across frames, flat and grouped parsers of both "
                       "integrations, frame_metadata ContextVar", "grouped_stream_to_file / stream_frames with a "
                       "shared Stream, Graphs/DatasetsFrameFlow"],
              "stub": ["reframe fault (simkit.wire row slicing: rows are never re-encoded)", "oracle: simkit.refdec"]}
ASSUMPTIONS = ["frames produced for empty inputs are not judged", "rdflib sinks compared as sets"]
PROBES = ["frames_without_statements", "several_leading_rowless_frames", "retained_sinks_compared", "first_input_empty", "grouped_write_with_namespaces", "big_group_runs", "grouped_write_flat_logical", "reframe_runs", "grouped_write_runs", "empty_frames_inserted", "metadata_frames", "leading_empty_frame",
          "single_row_frames", "rdflib_runs", "empty_inputs", "physical_GRAPHS"]
SHRINK_LISTS = ["ops", "items"]


def generate(rng, run, tier):
    if rng.random() < 0.65:
        if rng.random() < 0.5:
            plan = c01.gen_plan(rng, run, tier)
            plan["source"] = "real"
            plan["integration"] = "generic"
            plan["cfg"]["delimited"] = True
            if plan["cfg"]["entry"] == "flat_frames":
                plan["cfg"]["entry"] = "frames_gen"
        else:
            integration = rng.choice(["generic", "generic", "rdflib"])
            plan = c04.gen_stream_plan(rng, integration == "rdflib")
            plan["source"] = "model"
            plan["integration"] = integration
            plan["delimited"] = True
        plan["kind"] = "reframe"
        for k in ("consumer", "frontend", "interleave"):
            plan.pop(k, None)
        return plan
    return gen_grouped(rng)


def gen_grouped(rng):
    integration = rng.choice(["generic", "generic", "rdflib"])
    physical = rng.choice(["TRIPLES", "QUADS", "GRAPHS"])
    stmts, flags, sizes, _ = c01.gen_workload(rng, physical, rdflib_safe=integration == "rdflib", max_n=24)
    big = rng.random() < 0.04
    if big:
        # one input large enough to exceed the default row bound of flat streams (250 rows) several times
        reps = []
        for i in range(rng.choice([12, 30])):
            for st in stmts:
                reps.append((("iri", f"http://big.example/s{i}/{len(reps)}"), *st[1:]))
        stmts = reps[:700]
    mp, mn, md = c01.fit_tables(rng, stmts, [], sizes, physical)
    if md == 0 and W.has_datatypes(stmts):
        md = max(1, W.max_needs(stmts)[2])
    logical = rng.choice([3, 13, 1]) if physical == "TRIPLES" else rng.choice([4, 14, 114, 2])
    if physical == "GRAPHS" and logical == 2:
        logical = 4
    groups = c01.split_groups(rng, len(stmts)) if not big else [len(stmts) - len(stmts) // 3, len(stmts) // 3]
    if rng.random() < 0.3 and len(groups) > 1:
        groups.insert(rng.randint(0, len(groups)), 0)     # an empty input first / in the middle / at the end
    entry = "grouped_file" if physical != "GRAPHS" else "shared_stream"
    if rng.random() < 0.3:
        entry = "shared_stream"
    cfg = nodes.default_cfg(integration=integration, physical=physical, logical=logical, delimited=True,
                            frame_size=250 if big else rng.choice([1, 3, 250]), max_names=mn, max_prefixes=mp, max_datatypes=md,
                            generalized=flags["generalized"], rdf_star=flags["rdf_star"], entry=entry)
    cfg["groups"] = groups
    ops = [["stmt", *T.to_json(st)] for st in stmts]
    if integration == "generic" and not big and rng.random() < 0.25:
        # namespace declarations on; the bindings sit on the first input or on every input
        cfg["ns"] = True
        cfg["ns_all_groups"] = rng.random() < 0.5
        pools = W.Pools(rng, 3, 3, 1)
        nss = W.gen_namespaces(rng, pools, rng.randint(1, 3))
        need = W.max_needs(stmts, nss, prefix_enabled=cfg["max_prefixes"] > 0, graphs_type=physical == "GRAPHS")
        if cfg["max_prefixes"]:
            cfg["max_prefixes"] = max(cfg["max_prefixes"], need[0])
        cfg["max_names"] = max(cfg["max_names"], need[1])
        ops = [["ns", p, i] for p, i in nss] + ops
    return {"kind": "grouped_write", "cfg": cfg, "integration": integration, "ops": ops}


def repartition(rows, sim):
    """Cut the row sequence into frames by tape decisions; insert empty / metadata frames."""
    frames = []
    cur = wire.Frame()
    if sim.flip(1, 4, "lead_empty"):
        frames.append(wire.Frame([], refenc.metadata_for(sim, 0) if sim.flip(1, 2, "md") else []))
        sim.count("leading_empty_frame")
        sim.count("empty_frames_inserted")
        # sometimes a run of them: with and without metadata, in any order (a reader that sets row-less leading
        # frames aside has to hand them out again in the order they came)
        while len(frames) < 4 and sim.flip(1, 2, "lead_more"):
            frames.append(wire.Frame([], refenc.metadata_for(sim, len(frames)) if sim.flip(1, 2, "md") else []))
            sim.count("several_leading_rowless_frames")
            sim.count("empty_frames_inserted")
    mode = sim.choose(4, "mode")       # 0: few cuts, 1: many, 2: every row, 3: one frame
    for i, r in enumerate(rows):
        cur.rows.append(r)
        last = i == len(rows) - 1
        cut = (mode == 2) or (mode == 0 and sim.flip(1, 8, "cut")) or (mode == 1 and sim.flip(1, 2, "cut"))
        if mode == 2:
            sim.count("single_row_frames")
        if cut and not last:
            if sim.flip(1, 5, "md"):
                cur.metadata = refenc.metadata_for(sim, len(frames))
            frames.append(cur)
            cur = wire.Frame()
            if sim.flip(1, 8, "empty"):
                frames.append(wire.Frame([], refenc.metadata_for(sim, len(frames)) if sim.flip(1, 2, "md") else []))
                sim.count("empty_frames_inserted")
    if sim.flip(1, 5, "md"):
        cur.metadata = refenc.metadata_for(sim, len(frames))
    frames.append(cur)
    if sim.flip(1, 8, "trail_empty"):
        frames.append(wire.Frame([], []))
        sim.count("empty_frames_inserted")
    refenc.avoid_ambiguous_leading(frames)
    sim.fault("reframe")
    sim.event("reframe", tuple(len(f.rows) for f in frames), tuple(len(f.metadata) for f in frames))
    return frames


def reframe_side(plan, sim):
    sim.count("reframe_runs")
    integration = plan["integration"]
    if integration == "rdflib":
        sim.count("rdflib_runs")
    if plan["source"] == "real":
        data = nodes.serialize_input(plan["cfg"], plan["ops"], None)
    else:
        data, _, _, _ = c04.build_stream(plan, sim)
    base_frames = wire.read_stream(data, True)
    base = refdec.decode_frames(base_frames, strict=False)
    if not base.ok:
        raise HarnessError(f"base stream invalid: {base.error}")
    rows = [r for f in base_frames for r in f.rows]
    frames = repartition(rows, sim)
    if any(f.metadata for f in frames):
        sim.count("metadata_frames")
    new = wire.write_stream(frames, True)
    ref = refdec.decode_frames(frames, strict=False)
    if not ref.ok or ref.items != base.items:
        raise HarnessError("reference decoder: re-partitioning changed the denotation")
    exp_items = [c04.conv_expected(integration, i) for i in base.items]
    ordered = integration == "generic"
    v = []
    # flat parse: identical for every partition
    try:
        flat = list(nodes.parse_flat(integration, io.BytesIO(new)))
    except Exception as e:  # noqa: BLE001
        return [{"clause": "C07.flat_raised", "sig": {"exc": type(e).__name__},
                 "msg": f"flat parse of the re-framed stream raised {type(e).__name__}: {e}"}], None
    if flat != exp_items:
        d = c01.first_diff(exp_items, flat)
        v.append({"clause": "C07.flat_depends_on_framing", "sig": {},
                  "msg": f"flat parse differs after re-framing into {len(frames)} frames: item {d[0]} expected "
                         f"{d[1]!r} got {d[2]!r} ({len(exp_items)} vs {len(flat)} items)"})
    # grouped parse: one sink per frame, concatenation = flat parse, metadata visible
    var = contextvars.ContextVar("frame_metadata")
    sinks = []
    try:
        for sts, nss in nodes.parse_grouped(integration, io.BytesIO(new), frame_metadata=var):
            md = dict(var.get({}))
            sinks.append((sts, nss, md))
    except Exception as e:  # noqa: BLE001
        return v + [{"clause": "C07.grouped_raised", "sig": {"exc": type(e).__name__},
                     "msg": f"grouped parse raised {type(e).__name__}: {e}"}], None
    if len(sinks) != len(frames):
        v.append({"clause": "C07.sink_count", "sig": {},
                  "msg": f"{len(frames)} frames in the stream, {len(sinks)} sinks yielded"})
    else:
        for j, (sts, nss, md) in enumerate(sinks):
            e_st = [c04.conv_expected(integration, i) for i in ref.frames_items[j] if i[0] != "ns"]
            same = (sts == e_st) if ordered else (set(sts) == set(e_st))
            if not same:
                v.append({"clause": "C07.sink_content", "sig": {},
                          "msg": f"sink {j} of {len(frames)}: expected {e_st!r} got {sts!r}"})
                break
            want_md = frames[j].metadata_dict()
            if md != want_md:
                v.append({"clause": "C07.frame_metadata", "sig": {},
                          "msg": f"after sink {j} the metadata variable holds {md!r}, frame carries {want_md!r}"})
                break
    # a consumer that keeps the sinks and reads them after the stream has ended sees what the streaming one saw:
    # a sink that was handed out belongs to its frame, nothing is added to it afterwards
    if not v:
        try:
            kept, distinct = nodes.parse_grouped_retained(integration, io.BytesIO(new))
        except Exception as e:  # noqa: BLE001
            return v + [{"clause": "C07.grouped_raised", "sig": {"exc": type(e).__name__, "consumer": "retaining"},
                         "msg": f"list(parse_jelly_grouped(...)) raised {type(e).__name__}: {e}"}], None
        sim.count("retained_sinks_compared")
        now = [(sts, nss) for sts, nss in kept]
        then = [(sts, nss) for sts, nss, _ in sinks]
        if not ordered:
            now = [(set(a), b) for a, b in now]
            then = [(set(a), b) for a, b in then]
        if now != then or distinct != len(kept):
            j = next((i for i, (a, b) in enumerate(zip(now, then)) if a != b), None)
            v.append({"clause": "C07.sink_content", "sig": {"consumer": "retaining"},
                      "msg": f"{len(kept)} sinks kept until the end of the stream ({distinct} distinct objects): sink "
                             f"{j} held {then[j] if j is not None else None!r} when it was yielded and holds "
                             f"{now[j] if j is not None else None!r} afterwards"})
    nst = sum(1 for fi in ref.frames_items if fi)
    key = (tuple(rows), tuple(len(f.rows) for f in frames)) if nst >= 2 else None
    return v, key


def grouped_write_side(plan, sim):
    sim.count("grouped_write_runs")
    cfg = plan["cfg"]
    if len(plan["ops"]) >= 250:
        sim.count("big_group_runs")
    integration = plan["integration"]
    if integration == "rdflib":
        sim.count("rdflib_runs")
    sim.count("physical_" + cfg["physical"])
    stmts, nss = nodes.split_ops(plan["ops"])
    groups = cfg["groups"]
    if 0 in groups:
        sim.count("empty_inputs")
    if groups and groups[0] == 0:
        sim.count("first_input_empty")
    if nss:
        sim.count("grouped_write_with_namespaces")
    sim.event("grouped_write", tuple(groups), cfg["entry"])
    try:
        data = write_grouped(cfg, stmts, groups, nss)
    except Exception as e:  # noqa: BLE001
        return [{"clause": "C07.grouped_write_raised", "sig": {"exc": type(e).__name__},
                 "msg": f"{type(e).__name__}: {e}"}], None
    return judge_grouped(plan, sim, cfg, integration, stmts, groups, data)


def write_grouped(cfg, stmts, groups, nss=()):
    out = io.BytesIO()
    nss = list(nss)
    if True:
        if cfg["entry"] == "grouped_file":
            nodes.integ_mod(cfg).grouped_stream_to_file(nodes.group_gen(cfg, stmts, nss, groups), out,
                                                        options=nodes.make_options(cfg))
        else:
            from pyjelly.serialize.ioutils import write_delimited
            stream = nodes.make_stream(cfg)
            m = nodes.integ_mod(cfg)
            for sink in nodes.group_gen(cfg, stmts, nss, groups):
                for fr in m.stream_frames(stream, sink):
                    write_delimited(fr, out)
    return out.getvalue()


def judge_grouped(plan, sim, cfg, integration, stmts, groups, data):
    ref = refdec.decode_stream(data, True, strict=True)
    if not ref.ok:
        return [{"clause": "C07.grouped_write_invalid", "sig": {"cls": ref.error["cls"]}, "msg": str(ref.error)}], None
    # expected inputs
    inputs = []
    pos = 0
    for n in groups:
        inputs.append(stmts[pos:pos + n])
        pos += n
    nonempty = [g for g in inputs if g]
    got_frames = [[tuple(T.norm(t) for t in st) for st in fi if st[0] != "ns"] for fi in ref.frames_items]
    # The property speaks about non-empty inputs only ("exactly one frame per non-empty input"): each must
    # get one frame of its own, in order.  What an EMPTY input writes is left open by the statement - an
    # options-only frame when it comes first, a frame of declarations when it has bindings and declarations are
    # on, a frame holding an empty default graph for an rdflib Dataset through a GraphStream, nothing otherwise
    # (DESIGN 12.9, review round 2) - so frames without a statement are counted as a probe, not judged.
    if len(got_frames) != len([f for f in got_frames if f]):
        sim.count("frames_without_statements", len(got_frames) - len([f for f in got_frames if f]))
    got_frames = [f for f in got_frames if f]
    v = []
    if cfg["logical"] in (1, 2):
        # a flat logical type bounds frames by rows: only the content is promised (one frame per input is
        # promised "with a grouped logical type")
        sim.count("grouped_write_flat_logical")
        flat_got = [s for f in got_frames for s in f]
        flat_in = [T.norm_stmt(s) for g in nonempty for s in g]
        ok = flat_got == flat_in if integration == "generic" else set(flat_got) == c02.expected_set([s for g in nonempty for s in g])
        if not ok:
            v.append({"clause": "C07.grouped_write_content", "sig": {"entry": cfg["entry"]},
                      "msg": f"flat logical type: wrote {flat_got!r} for inputs {nonempty!r}"})
    elif len(got_frames) != len(nonempty):
        v.append({"clause": "C07.frames_per_input", "sig": {"entry": cfg["entry"]},
                  "msg": f"{len(nonempty)} non-empty inputs, {len(got_frames)} frames with statements "
                         f"(sizes {[len(f) for f in got_frames]} vs inputs {[len(g) for g in nonempty]})"})
    else:
        for i, (gf, inp) in enumerate(zip(got_frames, nonempty)):
            if integration == "generic":
                ok = gf == [T.norm_stmt(s) for s in inp]
            else:
                ok = set(gf) == c02.expected_set(inp)
            if not ok:
                v.append({"clause": "C07.frame_carries_other_input", "sig": {"entry": cfg["entry"]},
                          "msg": f"frame {i} does not carry input {i}: {gf!r} vs {inp!r}"})
                break
    key = (repr(sorted(cfg.items(), key=str)), repr(stmts)) if len(nonempty) >= 2 else None
    return v, key


def execute(plan, sim):
    if plan["kind"] == "reframe":
        return reframe_side(plan, sim)
    return grouped_write_side(plan, sim)
