"""C15 - all parsing entry points and both integrations agree."""
from __future__ import annotations

import copy
import io

from checks import c01, c02, c04
from simkit import nodes, refdec, workload as W
from simkit import terms as T
from simkit.kernel import HarnessError
from simkit.pipe import open_frontend

ID = "C15"
LEVEL = "exploration"
TECHNIQUE = ('deterministic simulation, N consumer replicas: the same bytes to six parse entry points each under its own read schedule; corresponding inputs to both serializers, byte comparison')
LEVEL_NOTE = ('sampled RDF 1.1 streams; set-like containers compared as sets')
OPTIMIZED_EVERY = 25      # every 25th run is executed in a child interpreter started with python -O
PBPY_EVERY = 50           # every 50th run (offset 6) is executed with protobuf's pure-Python backend
COMPILED_EVERY = 25       # every 25th run (offset 12) is executed in a child that imports a mypyc build of the tree
RUNS = {"quick": 32000, "thorough": 600000}
RULE = ("(parse) the same valid RDF 1.1 bytes (real writer or reference encoder, all physical types) are handed to "
        "the three generic and three rdflib parse entry points, each through its own front end and read schedule; "
        "(write) corresponding generic and rdflib inputs are serialized with the same options by both integrations "
        "and compared byte for byte; non-trivial = >=2 statements; distinct = distinct byte streams / inputs")
COMPONENTS = {"real": ["six parse entry points + plugins", "both serializer integrations", "rdflib containers"],
              "stub": ["byte sources with per-consumer read schedules", "writer in half of the parse runs: simkit.refenc"]}
ASSUMPTIONS = ["RDF 1.1 content only; datatypes from a private namespace plus xsd:string so that rdflib's lexical "
               "normalisation cannot differ from the generic integration", "set-like containers compared as sets; "
               "container inputs are fed to the generic side in the order rdflib iterates them"]
PROBES = ["guessed_stream_any_logical_type", "both_writers_refuse_alike", "sink_vs_sequence_inputs", "grouped_inputs", "first_group_empty", "parse_runs", "write_runs", "model_streams", "real_streams", "physical_GRAPHS", "physical_QUADS",
          "container_inputs", "generator_inputs"]
SHRINK_LISTS = ["ops", "items"]


def generate(rng, run, tier):
    kind = rng.choice(["parse", "parse", "write"])
    if kind == "parse" and rng.random() < 0.5:
        plan = c04.gen_stream_plan(rng, True)
        plan["source"] = "model"
    else:
        physical = rng.choice(["TRIPLES", "QUADS", "GRAPHS"])
        entry = rng.choice(["frames_gen", "frames_sink", "flat_file", "container_serialize", "grouped_file",
                            "sink_vs_sequence"])
        if kind != "write" and entry == "sink_vs_sequence":
            entry = "frames_sink"       # (a pairing of writers: only meaningful on the write side)
        if physical == "GRAPHS" and entry == "flat_file":
            physical = "QUADS"
        stmts, flags, sizes, pools = c01.gen_workload(rng, physical, rdflib_safe=True, max_n=20)
        mp, mn, md = c01.fit_tables(rng, stmts, [], sizes, physical)
        if md == 0 and W.has_datatypes(stmts):
            md = max(1, W.max_needs(stmts)[2])
        cfg = nodes.default_cfg(integration="generic", physical=physical, logical=1 if physical == "TRIPLES" else 2,
                                delimited=True, frame_size=rng.choice([1, 3, 250]), max_names=mn, max_prefixes=mp,
                                max_datatypes=md, generalized=False, rdf_star=False, entry=entry)
        if entry == "flat_file" and kind == "write" and rng.random() < 0.5:
            # the stream class is guessed from the options and the first statement: any of the eight logical types,
            # fitting the statements or not - both integrations have to make the same guess or refuse alike
            cfg["logical"] = rng.choice([0, 1, 2, 3, 4, 13, 14, 114])
            cfg["logical_sweep"] = True
        if entry == "grouped_file":
            if physical == "GRAPHS":
                cfg["physical"] = physical = "QUADS"
                cfg["max_prefixes"] = cfg["max_prefixes"] and min(4096, cfg["max_prefixes"] + 1)   # graph IRI joins the row
                cfg["max_names"] = min(4096, cfg["max_names"] + 1)
            cfg["logical"] = rng.choice([3, 13, 1] if physical == "TRIPLES" else [4, 14, 2])
            groups = c01.split_groups(rng, len(stmts))
            if rng.random() < 0.4:
                groups.insert(rng.choice([0, 0, len(groups)]), 0)       # an empty graph/dataset, often the first
            cfg["groups"] = groups
        plan = {"cfg": cfg, "ops": [["stmt", *T.to_json(st)] for st in stmts], "source": "real"}
    plan["kind"] = kind
    plan["frontends"] = [rng.choice(["bytesio", "raw", "buffered", "seekable_buffered", "gzip"]) for _ in range(8)]
    return plan


def neutral_as_rdflib_holds(st):
    if len(st) == 3:
        return tuple(T.from_rdflib(T.to_rdflib(t)) for t in st)
    return (*(T.from_rdflib(T.to_rdflib(t)) for t in st[:3]), T.from_rdflib(T.to_rdflib(st[3]), graph_slot=True))


def raw_as_rdflib_holds(st):
    if len(st) == 3:
        return tuple(T.from_rdflib_raw(T.to_rdflib(t)) for t in st)
    return (*(T.from_rdflib_raw(T.to_rdflib(t)) for t in st[:3]), T.from_rdflib_raw(T.to_rdflib(st[3]), graph_slot=True))


def parse_side(plan, sim):
    sim.count("parse_runs")
    if plan["source"] == "model":
        sim.count("model_streams")
        data, frames, stats, r = c04.build_stream(plan, sim)
        delimited = plan["delimited"]
        physical = plan["opts"]["physical_type"]
    else:
        sim.count("real_streams")
        cfg = dict(plan["cfg"])
        if cfg["entry"] == "container_serialize":
            cfg["entry"] = "frames_sink"
        data = nodes.serialize(cfg, plan["ops"], None)
        delimited = True
        physical = nodes.PHYS[cfg["physical"]]
        r = refdec.decode_stream(data, True, strict=False)
    sim.count("physical_" + {1: "TRIPLES", 2: "QUADS", 3: "GRAPHS"}[physical])
    fes = plan["frontends"]

    def src(i):
        f, _ = open_frontend(fes[i], sim, data=data, policy="safe")
        return f
    res = {}
    try:
        for integ, off in (("generic", 0), ("rdflib", 3)):
            flat = list(nodes.parse_flat(integ, src(off)))
            grouped = list(nodes.parse_grouped(integ, src(off + 1)))
            tg_st, tg_ns = nodes.parse_to_graph(integ, src(off + 2))
            res[integ] = (flat, grouped, tg_st, tg_ns)
    except Exception as e:  # noqa: BLE001
        return [{"clause": "C15.parse_raised", "sig": {"exc": type(e).__name__},
                 "msg": f"valid stream: {type(e).__name__}: {e}"}], None
    v = []
    g_flat, g_grp, g_tg, _ = res["generic"]
    r_flat, r_grp, r_tg, _ = res["rdflib"]
    g_st = [i for i in g_flat if i[0] != "ns"]
    r_st = [i for i in r_flat if i[0] != "ns"]
    # within the generic integration (ordered)
    g_concat = [s for sts, _ in g_grp for s in sts]
    if g_concat != g_st:
        v.append({"clause": "C15.generic_grouped_vs_flat", "sig": {}, "msg": str(c01.first_diff(g_st, g_concat))})
    if g_tg != g_st:
        v.append({"clause": "C15.generic_to_graph_vs_flat", "sig": {}, "msg": str(c01.first_diff(g_st, g_tg))})
    # within the rdflib integration (containers are sets)
    r_concat = {s for sts, _ in r_grp for s in sts}
    if r_concat != set(r_st):
        v.append({"clause": "C15.rdflib_grouped_vs_flat", "sig": {},
                  "msg": f"only in flat {sorted(set(r_st) - r_concat, key=repr)[:2]!r}; only in grouped "
                         f"{sorted(r_concat - set(r_st), key=repr)[:2]!r}"})
    r_tg_cmp = {t[:3] for t in r_tg} if physical == 1 else set(r_tg)
    r_st_cmp = {t[:3] for t in r_st} if physical == 1 else set(r_st)
    if r_tg_cmp != r_st_cmp:
        v.append({"clause": "C15.rdflib_to_graph_vs_flat", "sig": {},
                  "msg": f"only in flat {sorted(r_st_cmp - r_tg_cmp, key=repr)[:2]!r}; only in to_graph "
                         f"{sorted(r_tg_cmp - r_st_cmp, key=repr)[:2]!r}"})
    # across integrations: term for term (both flat parsers are generators, so order is comparable)
    g_as_r = [i if i[0] == "ns" else neutral_as_rdflib_holds(i) for i in g_flat]
    if g_as_r != r_flat:
        d = c01.first_diff(g_as_r, r_flat)
        v.append({"clause": "C15.integrations_differ", "sig": {},
                  "msg": f"item {d[0]}: generic {d[1]!r} rdflib {d[2]!r}"})
    key = data if len(g_st) >= 2 else None
    return v, key


def write_side(plan, sim):
    sim.count("write_runs")
    cfg_g = dict(plan["cfg"])
    stmts, _ = nodes.split_ops(plan["ops"])
    entry = cfg_g["entry"]
    sim.count("physical_" + cfg_g["physical"])
    cfg_r = dict(cfg_g, integration="rdflib")
    held = [raw_as_rdflib_holds(st) for st in stmts]
    if not stmts:
        return [], None
    if entry == "grouped_file":
        return grouped_write_side(plan, sim, cfg_g, cfg_r, stmts)
    if cfg_g.get("logical_sweep"):
        sim.count("guessed_stream_any_logical_type")
        ops_g = [["stmt", *T.to_json(st)] for st in held]
        res = []
        for cfg_x, ops_x in ((cfg_g, ops_g), (cfg_r, plan["ops"])):
            try:
                res.append(nodes.serialize(cfg_x, ops_x, None))
            except Exception as e:  # noqa: BLE001
                res.append(type(e).__name__)
        if isinstance(res[0], str) and res[0] == res[1]:
            sim.count("both_writers_refuse_alike")
        v = []
        if res[0] != res[1]:
            show = [r if isinstance(r, str) else f"{len(r)} bytes" for r in res]
            v.append({"clause": "C15.serializers_differ",
                      "sig": {"physical": cfg_g["physical"], "input": "generator, guessed stream", "same_statements": None},
                      "msg": f"flat_stream_to_file with logical type {cfg_g['logical']} and "
                             f"{'quads' if len(stmts[0]) == 4 else 'triples'}: generic -> {show[0]}, rdflib -> {show[1]}"})
        return v, (repr(sorted(cfg_g.items())), repr(stmts)) if len(stmts) >= 2 else None
    if entry == "sink_vs_sequence":
        # the generic sink keeps the order in which statements were added; its rdflib counterpart is the same
        # statements as a sequence (rdflib has no ordered container)
        sim.count("sink_vs_sequence_inputs")
        cfg_g["entry"], cfg_r["entry"] = "frames_sink", "frames_gen"
        ops_g = [["stmt", *T.to_json(st)] for st in held]
        try:
            out_g = nodes.serialize(cfg_g, ops_g, None)
            out_r = nodes.serialize(cfg_r, plan["ops"], None)
        except Exception as e:  # noqa: BLE001
            return [{"clause": "C15.serialize_raised", "sig": {"exc": type(e).__name__},
                     "msg": f"{type(e).__name__}: {e}"}], None
        v = []
        if out_g != out_r:
            rg = refdec.decode_stream(out_g, True, strict=False)
            rr = refdec.decode_stream(out_r, True, strict=False)
            v.append({"clause": "C15.serializers_differ",
                      "sig": {"physical": cfg_g["physical"], "input": "sink_vs_sequence",
                              "same_statements": bool(rg.ok and rr.ok and rg.items == rr.items)},
                      "msg": f"generic sink (insertion order) wrote {len(out_g)} bytes, rdflib wrote {len(out_r)} bytes for "
                             f"the same statements as a sequence; generic order {rg.items[:3]!r} rdflib order {rr.items[:3]!r}"})
        return v, (repr(sorted(cfg_g.items())), repr(stmts)) if len(stmts) >= 2 else None
    if entry in ("frames_sink", "container_serialize") and cfg_g["physical"] == "GRAPHS" \
            and not any(st[3] == T.DEFAULT for st in stmts):
        # an rdflib Dataset always has a default graph and writes it even when empty; a sequence of quads
        # cannot express an empty graph, so the inputs do not correspond
        sim.count("skipped_empty_default_graph")
        return [], None
    if entry in ("frames_sink", "container_serialize"):
        sim.count("container_inputs")
        # the rdflib container decides the order; feed the generic side in that order
        cont = nodes.make_container(cfg_r, stmts, [])
        import rdflib
        if isinstance(cont, rdflib.Dataset):
            if cfg_g["physical"] == "GRAPHS":
                order = []
                for g in cont.graphs():
                    for s, p, o in g:
                        order.append((T.from_rdflib_raw(s), T.from_rdflib_raw(p), T.from_rdflib_raw(o),
                                      T.from_rdflib_raw(g.identifier, graph_slot=True)))
            else:
                order = [(T.from_rdflib_raw(s), T.from_rdflib_raw(p), T.from_rdflib_raw(o),
                          T.from_rdflib_raw(g, graph_slot=True)) for s, p, o, g in cont.quads()]
        else:
            order = [tuple(T.from_rdflib_raw(x) for x in t) for t in cont]
        ops_g = [["stmt", *T.to_json(st)] for st in order]
        if entry == "container_serialize":
            cfg_r["entry"] = "graph_serialize"
            cfg_r["pass_stream"] = True
            cfg_g["entry"] = "frames_sink"
        # rdflib side serializes the container it built itself
        try:
            out_r = serialize_container(cfg_r, cont)
            out_g = nodes.serialize(cfg_g, ops_g, None)
        except Exception as e:  # noqa: BLE001
            return [{"clause": "C15.serialize_raised", "sig": {"exc": type(e).__name__},
                     "msg": f"{type(e).__name__}: {e}"}], None
    else:
        sim.count("generator_inputs")
        ops_g = [["stmt", *T.to_json(st)] for st in held]
        try:
            out_g = nodes.serialize(cfg_g, ops_g, None)
            out_r = nodes.serialize(cfg_r, plan["ops"], None)
        except Exception as e:  # noqa: BLE001
            return [{"clause": "C15.serialize_raised", "sig": {"exc": type(e).__name__},
                     "msg": f"{type(e).__name__}: {e}"}], None
    v = []
    if out_g != out_r:
        rg = refdec.decode_stream(out_g, True, strict=False)
        rr = refdec.decode_stream(out_r, True, strict=False)
        same_data = rg.ok and rr.ok and set(rg.items) == set(rr.items)     # an rdflib Dataset is a set
        container = entry not in ("frames_gen", "flat_file")
        if container and same_data and rg.items != rr.items and sorted(rg.items, key=repr) == sorted(rr.items, key=repr):
            # the rdflib writer went through its (unordered) container in another order than the harness did when it
            # built the "corresponding" generic sequence: the two inputs do not correspond, nothing to compare
            sim.count("container_written_in_another_order")
            return [], None
        v.append({"clause": "C15.serializers_differ",
                  "sig": {"physical": cfg_g["physical"], "input": "generator" if entry in ("frames_gen", "flat_file")
                          else "container", "same_statements": bool(same_data)},
                  "msg": f"generic wrote {len(out_g)} bytes, rdflib {len(out_r)} bytes for corresponding input and "
                         f"equal options ({entry}); same statements as a set: {same_data}; generic order "
                         f"{[i for i in rg.items][:3]!r} rdflib order {[i for i in rr.items][:3]!r}"})
    key = (repr(sorted(cfg_g.items())), repr(stmts)) if len(stmts) >= 2 else None
    return v, key


def grouped_write_side(plan, sim, cfg_g, cfg_r, stmts):
    """Both integrations write the same sequence of graphs/datasets through grouped_stream_to_file."""
    import rdflib
    sim.count("grouped_inputs")
    groups = cfg_g["groups"]
    conts_r, conts_g = [], []
    pos = 0
    for n in groups:
        chunk = stmts[pos:pos + n]
        pos += n
        cr = nodes.make_container(cfg_r, chunk, [])
        if isinstance(cr, rdflib.Dataset):
            order = [(T.from_rdflib_raw(s), T.from_rdflib_raw(p), T.from_rdflib_raw(o),
                      T.from_rdflib_raw(g, graph_slot=True)) for s, p, o, g in cr.quads()]
        else:
            order = [tuple(T.from_rdflib_raw(x) for x in t) for t in cr]
        conts_r.append(cr)
        conts_g.append(nodes.make_container(cfg_g, order, []))
    if groups and groups[0] == 0:
        sim.count("first_group_empty")
    outs = {}
    try:
        for name, cfg, conts in (("generic", cfg_g, conts_g), ("rdflib", cfg_r, conts_r)):
            out = io.BytesIO()
            nodes.integ_mod(cfg).grouped_stream_to_file((c for c in conts), out, options=nodes.make_options(cfg))
            outs[name] = out.getvalue()
    except Exception as e:  # noqa: BLE001
        return [{"clause": "C15.serialize_raised", "sig": {"exc": type(e).__name__},
                 "msg": f"grouped write: {type(e).__name__}: {e}"}], None
    v = []
    if outs["generic"] != outs["rdflib"]:
        from simkit import refdec as _rd
        rg, rr = (_rd.decode_stream(outs[k], True, strict=False) for k in ("generic", "rdflib"))
        if rg.ok and rr.ok and rg.items != rr.items and sorted(rg.items, key=repr) == sorted(rr.items, key=repr) \
                and [len(f) for f in rg.frames_items] == [len(f) for f in rr.frames_items]:
            sim.count("container_written_in_another_order")     # see write_side: the inputs did not correspond
            return [], None
        fg = len(wire_frames(outs["generic"]))
        fr = len(wire_frames(outs["rdflib"]))
        v.append({"clause": "C15.serializers_differ", "sig": {"physical": cfg_g["physical"], "input": "grouped",
                                                            "same_statements": None},
                  "msg": f"grouped write of {groups} statements per input: generic {len(outs['generic'])} bytes in {fg} "
                         f"frames, rdflib {len(outs['rdflib'])} bytes in {fr} frames"})
    key = (repr(sorted(cfg_g.items(), key=str)), repr(stmts)) if len(stmts) >= 2 else None
    return v, key


def wire_frames(data):
    from simkit import wire
    try:
        return wire.split_delimited(data)
    except wire.WireError:
        return []


def serialize_container(cfg, cont):
    out = io.BytesIO()
    if cfg["entry"] == "graph_serialize":
        opts = nodes.make_options(cfg)
        stream = nodes.make_stream(cfg, opts)
        cont.serialize(destination=out, format="jelly", stream=stream, options=opts)
    else:
        from pyjelly.serialize.ioutils import write_delimited
        stream = nodes.make_stream(cfg)
        for fr in nodes.integ_mod(cfg).stream_frames(stream, cont):
            write_delimited(fr, out)
    return out.getvalue()


def execute(plan, sim):
    if plan["kind"] == "parse":
        return parse_side(plan, sim)
    return write_side(plan, sim)
