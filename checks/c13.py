"""C13 - stream header fidelity and stream-type validation."""
from __future__ import annotations

import copy
import io

from checks import c01, c04
from simkit import nodes, refdec, refenc, wire, workload as W
from simkit import terms as T
from simkit.kernel import HarnessError

ID = "C13"
LEVEL = "exploration"
TECHNIQUE = ('deterministic simulation with a peer sending arbitrary headers: real writer header fidelity, 4x8 type lattice + table/version defects sent by the independent codec, strictness lattice of the four parsers')
LEVEL_NOTE = ('stratified seeded sampling of small finite lattices; compatibility table from the specification')
COMPILED_EVERY = 25       # every 25th run (offset 12) is executed in a child that imports a mypyc build of the tree
RUNS = {"quick": 45000, "thorough": 900000}
RULE = ("(fidelity) real writer with swarm-chosen options -> get_options_and_frames and the reference decoder must "
        "report exactly those options, version 2 iff namespace declarations; (pairs) all 4x8 physical/logical pairs, "
        "name tables <8, tables >4096, versions >2: writer construction and reader (headers sent by the reference "
        "encoder) must agree with the specification's table; (strict) 8 logical types x flat/grouped parser x strict x "
        "both integrations; lattice points visited by stratified seeded sampling; non-trivial = any; distinct = "
        "distinct lattice points / option tuples")
COMPONENTS = {"real": ["options.py validation, encode_options, options_from_frame, validate_stream_options, "
                       "LookupDecoder size guard, logical_type_strict gates of all four flat/grouped parsers"],
              "stub": ["peer sending arbitrary headers: simkit.refenc/wire", "second reader: simkit.refdec"]}
CHUNK = 100
ASSUMPTIONS = ["the compatibility table is the one in the Jelly specification: FLAT_TRIPLES, GRAPHS, SUBJECT_GRAPHS go "
               "with physical TRIPLES; FLAT_QUADS, DATASETS, NAMED_GRAPHS, TIMESTAMPED_NAMED_GRAPHS with QUADS/GRAPHS; "
               "UNSPECIFIED logical type goes with anything", "besides the normal interpreter, the reader-side lattice is repeated under python -O once per 1500 runs"]
PROBES = ["later_options_row_sent", "optimized_runs", "fidelity_runs", "pairs_runs", "strict_runs", "forbidden_pairs_sent", "permitted_pairs_sent",
          "small_name_table_sent", "big_table_sent", "bad_version_sent", "unicode_stream_names", "version2_written"]
SHRINK_LISTS = ["ops"]

LOGICALS = [0, 1, 2, 3, 4, 13, 14, 114]
TRIPLE_LT = {1, 3, 13}


def permitted(physical: int, logical: int) -> bool:
    if physical not in (1, 2, 3):
        return False
    if logical == 0:
        return True
    return (physical == 1) == (logical in TRIPLE_LT)


def generate(rng, run, tier):
    if run % 1500 == 1499:
        # the same reader-side lattice points in an interpreter started with -O (assert statements removed)
        cases = []
        for _ in range(60):
            physical = rng.choice([0, 1, 2, 3, 1, 2, 3])
            logical = rng.choice(LOGICALS)
            defect = rng.choice(["none", "none", "small_names", "big_table", "version", "version"])
            names, prefixes, datatypes, version = 16, 8, 4, rng.choice([1, 2])
            if defect == "small_names":
                names = rng.choice([0, 1, 7])
            elif defect == "big_table":
                names = rng.choice([4097, 1 << 16])
            elif defect == "version":
                version = rng.choice([3, 4, 9999, 10000])
            cases.append({"physical": physical, "logical": logical, "defect": defect, "names": names,
                          "prefixes": prefixes, "datatypes": datatypes, "version": version,
                          "delimited": rng.random() < 0.7, "integration": rng.choice(["generic", "rdflib"])})
            if rng.random() < 0.4:
                cases[-1]["position"] = "later"
                cases[-1]["later_split"] = rng.random() < 0.5
        return {"kind": "optimized", "cases": cases, "ops": []}
    kind = rng.choice(["fidelity", "pairs", "pairs", "strict"])
    if kind == "fidelity":
        integration = rng.choice(["generic", "rdflib"])
        physical = rng.choice(["TRIPLES", "QUADS", "GRAPHS"])
        stmts, flags, sizes, pools = c01.gen_workload(rng, physical, rdflib_safe=integration == "rdflib", max_n=5)
        mp, mn, md = c01.fit_tables(rng, stmts, [], sizes, physical)
        if md == 0 and W.has_datatypes(stmts):
            md = max(1, W.max_needs(stmts)[2])
        ns = rng.random() < 0.4
        logical = rng.choice(c01.TRIPLE_LOGICALS if physical == "TRIPLES" else c01.QUAD_LOGICALS)
        cfg = nodes.default_cfg(
            integration=integration, physical=physical, logical=logical, delimited=rng.random() < 0.7,
            frame_size=rng.choice([1, 3, 250]), max_names=rng.choice([mn, mn, 4000, 4096, 9]) if mn <= 9 else mn,
            max_prefixes=mp, max_datatypes=md, ns=ns,
            generalized=rng.random() < 0.5 if integration == "generic" else False,
            rdf_star=rng.random() < 0.5 if integration == "generic" else False,
            stream_name=rng.choice(W.STREAM_NAMES + ["\U0001F600", "á", "\x7f", " " * 3]),
            entry="frames_sink")
        if not (flags["generalized"] or flags["rdf_star"]):
            pass
        else:
            cfg["generalized"] = flags["generalized"]
            cfg["rdf_star"] = flags["rdf_star"]
        if integration == "rdflib":
            cfg["generalized"] = cfg["rdf_star"] = False
        cfg["want_version"] = rng.choice([None, 1, 2, 3])
        return {"kind": kind, "cfg": cfg, "ops": [["stmt", *T.to_json(st)] for st in stmts]}
    if kind == "pairs":
        physical = rng.choice([0, 1, 2, 3, 1, 2, 3])
        logical = rng.choice(LOGICALS)
        defect = rng.choice(["none", "none", "none", "small_names", "big_table", "version"])
        names, prefixes, datatypes, version = 16, 8, 4, rng.choice([1, 2])
        if defect == "small_names":
            names = rng.choice([0, 1, 7])
        elif defect == "big_table":
            which = rng.choice(["n", "p", "d"])
            big = rng.choice([4097, 5000, 1 << 16, 1 << 20])
            names, prefixes, datatypes = (big if which == "n" else names, big if which == "p" else prefixes,
                                          big if which == "d" else datatypes)
        elif defect == "version":
            version = rng.choice([3, 4, 9999, 10000])
        plan = {"kind": kind, "physical": physical, "logical": logical, "defect": defect,
                "names": names, "prefixes": prefixes, "datatypes": datatypes, "version": version,
                "integration": rng.choice(["generic", "rdflib"]), "delimited": rng.random() < 0.7, "ops": []}
        if rng.random() < 0.3:
            # the lattice point as a *later* options row of the stream (same frame or the next frame)
            plan["position"] = "later"
            plan["later_split"] = rng.random() < 0.5
        return plan
    physical = rng.choice([1, 2, 3])
    return {"kind": kind, "physical": physical, "integration": rng.choice(["generic", "rdflib"]),
            "delimited": rng.random() < 0.7, "n": rng.randint(1, 4), "ops": []}


# ------------------------------------------------------------------ (a) fidelity
def fidelity_side(plan, sim):
    sim.count("fidelity_runs")
    cfg = plan["cfg"]
    if any(ord(c) > 127 for c in cfg["stream_name"]):
        sim.count("unicode_stream_names")
    box = []
    want_version = cfg.get("want_version")
    try:
        if want_version is not None:
            # a requested version must never reach the wire unless it is the one the options imply
            from pyjelly.options import StreamParameters
            orig = nodes.make_options

            def mk(c):
                o = orig(c)
                o.params = StreamParameters(
                    generalized_statements=c["generalized"], rdf_star=c["rdf_star"], delimited=c["delimited"],
                    namespace_declarations=c["ns"], stream_name=c["stream_name"], version=want_version)
                return o
            nodes.make_options = mk
            try:
                data = nodes.serialize(cfg, plan["ops"], sim, stream_box=box)
            finally:
                nodes.make_options = orig
        else:
            data = nodes.serialize(cfg, plan["ops"], sim, stream_box=box)
    except Exception as e:  # noqa: BLE001
        if want_version is not None and want_version not in (1, 2):
            # asked for a protocol version that does not exist: refusing is one way of not writing it
            sim.count("unsupported_requested_version_refused")
            return [], None
        return [{"clause": "C13.serialize_raised", "sig": {"exc": type(e).__name__},
                 "msg": f"{type(e).__name__}: {e}"}], None
    stream = box[0]
    eff_logical = int(stream.stream_types.logical_type)
    want = {
        "physical_type": nodes.PHYS[cfg["physical"]], "logical_type": eff_logical,
        "max_name_table_size": cfg["max_names"], "max_prefix_table_size": cfg["max_prefixes"],
        "max_datatype_table_size": cfg["max_datatypes"], "stream_name": cfg["stream_name"],
        "generalized_statements": cfg["generalized"], "rdf_star": cfg["rdf_star"],
        "version": 2 if cfg["ns"] else 1,
    }
    if want["version"] == 2:
        sim.count("version2_written")
    v = []
    if cfg["logical"] != 0 and eff_logical != cfg["logical"]:
        v.append({"clause": "C13.logical_type_replaced", "sig": {},
                  "msg": f"requested logical type {cfg['logical']}, stream declares {eff_logical}"})
    r = refdec.decode_stream(data, cfg["delimited"], strict=True)
    if not r.ok:
        return [{"clause": "C13.invalid_stream", "sig": {"cls": r.error["cls"]}, "msg": str(r.error)}], None
    diff = {k: (want[k], r.options[k]) for k in want if r.options[k] != want[k]}
    if diff:
        v.append({"clause": "C13.header_on_wire_differs", "sig": {"fields": sorted(diff)},
                  "msg": f"written vs on the wire: {diff}"})
    from pyjelly.parse.ioutils import get_options_and_frames
    try:
        po, frames = get_options_and_frames(io.BytesIO(data))
    except Exception as e:  # noqa: BLE001
        return v + [{"clause": "C13.reader_raised", "sig": {"exc": type(e).__name__},
                     "msg": f"{type(e).__name__}: {e}"}], None
    got = {
        "physical_type": int(po.stream_types.physical_type), "logical_type": int(po.stream_types.logical_type),
        "max_name_table_size": po.lookup_preset.max_names, "max_prefix_table_size": po.lookup_preset.max_prefixes,
        "max_datatype_table_size": po.lookup_preset.max_datatypes, "stream_name": po.params.stream_name,
        "generalized_statements": po.params.generalized_statements, "rdf_star": po.params.rdf_star,
        "version": po.params.version,
    }
    diff = {k: (want[k], got[k]) for k in want if got[k] != want[k]}
    if diff:
        v.append({"clause": "C13.reader_told_other_options", "sig": {"fields": sorted(diff)},
                  "msg": f"written vs reported by get_options_and_frames: {diff}"})
    if po.params.delimited != cfg["delimited"]:
        v.append({"clause": "C13.reader_told_other_options", "sig": {"fields": ["delimited"]},
                  "msg": f"delimited written {cfg['delimited']} reported {po.params.delimited}"})
    if po.params.namespace_declarations != cfg["ns"]:
        v.append({"clause": "C13.reader_told_other_options", "sig": {"fields": ["namespace_declarations"]},
                  "msg": f"namespace_declarations written {cfg['ns']} reported {po.params.namespace_declarations}"})
    return v, ("fid", repr(sorted(want.items())), cfg["delimited"])


# ------------------------------------------------------------------ (b) pairs
def one_statement(physical):
    st = [("iri", "http://e/s"), ("iri", "http://e/p"), ("lit", "o", None, None)]
    if physical != 1:
        st.append(("default",))
    return tuple(st)


def pair_stream(plan):
    """Hand-made stream for one lattice point: options row, entries, one statement.

    position == "later": the stream opens with the nearest *valid* options row (the same row with the defective
    field repaired), carries one statement, then the lattice point's options row and a second statement - the
    header rules hold for every options row of a stream, not only for the first."""
    ph, lt = plan["physical"], plan["logical"]
    opts = refenc.make_opts(ph, lt, plan["names"], plan["prefixes"], plan["datatypes"], plan["version"])
    later = plan.get("position") == "later"
    ph1 = ph if ph in (1, 2, 3) else 1

    def statement_rows(second=False):
        s_t, p_t, o_t = ("iri", 1, 0), ("iri", 0, 0), ("lit", "o", None)
        if second:
            s_t, p_t, o_t = ("iri", 1, 1), ("iri", 0, 2), ("lit", "o2", None)      # explicit ids: no new entries needed
        if ph1 == 3:
            return [wire.enc_row(("graph_start", ("default",))), wire.enc_row(("triple", s_t, p_t, o_t)),
                    wire.enc_row(("graph_end",))]
        if ph1 == 2:
            return [wire.enc_row(("quad", s_t, p_t, o_t, ("default",)))]
        return [wire.enc_row(("triple", s_t, p_t, o_t))]

    entries = [wire.enc_row(("prefix", 0, "http://e/")), wire.enc_row(("name", 0, "s")), wire.enc_row(("name", 0, "p"))]
    if not later:
        rows = [wire.enc_row(("options", opts)), *entries, *statement_rows()]
        return wire.write_stream([wire.Frame(rows)], plan["delimited"])
    lt1 = lt if permitted(ph1, lt) else 0
    first = refenc.make_opts(ph1, lt1, plan["names"] if 8 <= plan["names"] <= 4096 else 16,
                             plan["prefixes"] if plan["prefixes"] <= 4096 else 8,
                             plan["datatypes"] if plan["datatypes"] <= 4096 else 4,
                             plan["version"] if plan["version"] in (1, 2) else 1)
    rows = [wire.enc_row(("options", first)), *entries, *statement_rows()]
    if plan.get("later_split"):
        return wire.write_stream([wire.Frame(rows), wire.Frame([wire.enc_row(("options", opts)), *statement_rows(True)])],
                                 True)
    rows += [wire.enc_row(("options", opts)), *statement_rows(True)]
    return wire.write_stream([wire.Frame(rows)], plan["delimited"])


OPT_CHILD = r"""
import sys, json, io
sys.path.insert(0, sys.argv[1])
sys.dont_write_bytecode = True
from simkit import repo, nodes
repo.setup()
from checks import c13
cases = json.load(open(sys.argv[2]))
out = []
for c in cases:
    data = c13.pair_stream(c)
    try:
        items = list(nodes.parse_flat(c["integration"], io.BytesIO(data)))
        out.append(["accepted", len(items)])
    except Exception as e:
        out.append(["raised", type(e).__name__])
print(json.dumps({"optimize": sys.flags.optimize, "out": out}))
"""


def optimized_side(plan, sim):
    """The reader-side lattice points once more, in a child interpreter started with -O."""
    import json
    import os
    import subprocess
    import sys
    import tempfile
    sim.count("optimized_runs")
    here = os.path.dirname(os.path.dirname(os.path.abspath(__file__)))
    tmp = tempfile.mkdtemp(prefix="c13-")
    try:
        pf = os.path.join(tmp, "cases.json")
        with open(pf, "w") as fh:
            json.dump(plan["cases"], fh)
        env = dict(os.environ, PYTHONDONTWRITEBYTECODE="1")
        env.pop("PYTHONOPTIMIZE", None)
        p = subprocess.run([sys.executable, "-O", "-B", "-c", OPT_CHILD, here, pf], env=env, capture_output=True,
                           text=True, timeout=300)
        if p.returncode != 0:
            raise HarnessError(f"-O child failed: {p.stderr[-600:]}")
        res = json.loads(p.stdout.strip().splitlines()[-1])
    finally:
        import shutil
        shutil.rmtree(tmp, ignore_errors=True)
    if res["optimize"] < 1:
        raise HarnessError("child interpreter did not run with -O")
    v = {}
    keys = set()
    for c, (what, detail) in zip(plan["cases"], res["out"]):
        should_accept = permitted(c["physical"], c["logical"]) and c["defect"] == "none"
        sim.event("opt_case", c["physical"], c["logical"], c["defect"], what)
        keys.add(("opt", c["physical"], c["logical"], c["defect"], c["integration"], c.get("position")))
        sig = {"defect": c["defect"], "interpreter": "python -O"}
        if c.get("position") == "later":
            sig["position"] = "later"
        if should_accept and what != "accepted":
            v.setdefault(("r", c["defect"], c.get("position")), {"clause": "C13.reader_refuses_permitted", "sig": sig,
                                              "msg": f"under python -O: {c} -> {what} {detail}"})
        if not should_accept and what == "accepted":
            v.setdefault(("a", c["defect"], c.get("position")), {"clause": "C13.reader_accepts_forbidden", "sig": sig,
                                              "msg": f"under python -O (assert statements removed) the reader accepted "
                                                     f"physical={c['physical']} logical={c['logical']} "
                                                     f"names={c['names']} version={c['version']} and returned "
                                                     f"{detail} items"})
    return list(v.values()), frozenset(keys)


def pairs_side(plan, sim):
    sim.count("pairs_runs")
    ph, lt = plan["physical"], plan["logical"]
    ok_pair = permitted(ph, lt)
    defect = plan["defect"]
    should_accept = ok_pair and defect == "none"
    sim.count({"small_names": "small_name_table_sent", "big_table": "big_table_sent",
               "version": "bad_version_sent"}.get(defect, "permitted_pairs_sent" if ok_pair else "forbidden_pairs_sent"))
    st = one_statement(ph if ph in (1, 2, 3) else 1)
    # hand-made stream: options row, entries, one statement (the reference encoder refuses invalid options)
    data = pair_stream(plan)
    later = plan.get("position") == "later"
    if later:
        sim.count("later_options_row_sent")
    if later and plan.get("later_split"):
        plan = dict(plan, delimited=True)
    ref = refdec.decode_stream(data, plan["delimited"], strict=True)
    if ref.ok != should_accept:
        raise HarnessError(f"reference decoder disagrees with the table: ok={ref.ok} expected {should_accept} "
                           f"{ref.error}")
    integration = plan["integration"]
    v = []
    sig = {"physical": ph, "logical": lt, "defect": defect}
    if later:
        sig["position"] = "later"
    items, exc = [], None
    try:
        items = list(nodes.parse_flat(integration, io.BytesIO(data)))
    except Exception as e:  # noqa: BLE001
        exc = e
    if should_accept and exc is not None:
        v.append({"clause": "C13.reader_refuses_permitted", "sig": sig,
                  "msg": f"{integration} reader raised {type(exc).__name__}: {exc}"})
    elif should_accept and len(items) != (2 if later else 1):
        v.append({"clause": "C13.reader_refuses_permitted", "sig": sig, "msg": f"{len(items)} items"})
    elif not should_accept and exc is None:
        v.append({"clause": "C13.reader_accepts_forbidden", "sig": sig,
                  "msg": f"{integration} reader accepted header physical={ph} logical={lt} names={plan['names']} "
                         f"prefixes={plan['prefixes']} datatypes={plan['datatypes']} version={plan['version']} and "
                         f"returned {items!r}"})
    # writer side for the same point. Tables larger than 4096 are refused on read; a writer that accepts such a
    # preset produces a stream that its own reader refuses, so the configuration must be refused on write too
    # ("rejected on both sides rather than written or accepted").
    if ph in (1, 2, 3):
        cfg = nodes.default_cfg(integration=integration, physical={1: "TRIPLES", 2: "QUADS", 3: "GRAPHS"}[ph],
                                logical=lt, delimited=True, max_names=plan["names"],
                                max_prefixes=plan["prefixes"], max_datatypes=plan["datatypes"], entry="frames_gen",
                                generalized=False, rdf_star=False)
        ops = [["stmt", *T.to_json(st)]]
        wexc, wdata = None, None
        try:
            wdata = nodes.serialize(cfg, ops, sim)
        except Exception as e:  # noqa: BLE001
            wexc = e
        if wexc is None:
            w = refdec.decode_stream(wdata, True, strict=True)
            if not w.ok:
                v.append({"clause": "C13.writer_emits_forbidden_header", "sig": sig,
                          "msg": f"writer accepted the configuration and wrote a header the specification forbids: "
                                 f"{w.error}"})
            elif (w.options["physical_type"], w.options["logical_type"]) != (ph, lt) and lt != 0:
                v.append({"clause": "C13.writer_reinterprets", "sig": sig,
                          "msg": f"asked for ({ph},{lt}) wrote ({w.options['physical_type']},{w.options['logical_type']})"})
        elif ok_pair and defect in ("none", "version"):
            v.append({"clause": "C13.writer_refuses_permitted", "sig": sig,
                      "msg": f"writer raised {type(wexc).__name__}: {wexc}"})
    return v, ("pair", ph, lt, defect, integration, plan.get("position"), plan.get("later_split"))


# ------------------------------------------------------------------ (c) strict
def strict_side(plan, sim):
    sim.count("strict_runs")
    ph = plan["physical"]
    integration = plan["integration"]
    items = []
    for i in range(plan["n"]):
        st = [("iri", f"http://e/s{i}"), ("iri", "http://e/p"), ("lit", str(i), None, None)]
        if ph != 1:
            st.append(("iri", "http://e/g") if i % 2 else ("default",))
        items.append(tuple(st))
    v = []
    base = {}
    keys = set()
    for lt in LOGICALS:
        if not permitted(ph, lt):
            continue
        opts = refenc.make_opts(ph, lt, 16, 8, 4, 1)
        data, frames, stats = refenc.encode(items, opts, sim, {"weird": 0, "frame_rows": 3}, plan["delimited"])
        for parser in ("flat", "grouped"):
            for strict in (False, True):
                keys.add(("strict", ph, lt, parser, strict, integration))
                exc, out = None, None
                try:
                    if parser == "flat":
                        out = list(nodes.parse_flat(integration, io.BytesIO(data), strict=strict))
                    else:
                        out = [a for a, b in nodes.parse_grouped(integration, io.BytesIO(data), strict=strict)]
                        if integration == "rdflib":
                            out = [sorted(a, key=repr) for a in out]
                except Exception as e:  # noqa: BLE001
                    exc = e
                sig = {"parser": parser, "logical": lt, "strict": strict}
                if strict:
                    want_ok = (lt in (1, 2)) if parser == "flat" else (lt in (3, 4, 13, 14, 114))
                    if want_ok and exc is not None:
                        v.append({"clause": "C13.strict_refuses_matching_type", "sig": sig,
                                  "msg": f"{integration} strict {parser} parser raised {type(exc).__name__}: {exc}"})
                    if not want_ok and exc is None:
                        v.append({"clause": "C13.strict_accepts_other_type", "sig": sig,
                                  "msg": f"{integration} strict {parser} parser accepted logical type {lt}"})
                    if want_ok and exc is None and out != base.get(parser):
                        v.append({"clause": "C13.logical_type_changes_result", "sig": sig, "msg": "strict result differs"})
                else:
                    if exc is not None:
                        v.append({"clause": "C13.nonstrict_raised", "sig": sig,
                                  "msg": f"{type(exc).__name__}: {exc}"})
                    elif parser not in base:
                        base[parser] = out
                    elif out != base[parser]:
                        v.append({"clause": "C13.logical_type_changes_result", "sig": sig,
                                  "msg": f"non-strict {parser} result with logical type {lt} differs from the one with "
                                         f"logical type 0"})
    return v[:4], frozenset(keys)


def execute(plan, sim):
    if plan["kind"] == "optimized":
        return optimized_side(plan, sim)
    if plan["kind"] == "fidelity":
        return fidelity_side(plan, sim)
    if plan["kind"] == "pairs":
        return pairs_side(plan, sim)
    return strict_side(plan, sim)
