"""C06 - no accepted serializer configuration silently drops statements."""
from __future__ import annotations

import copy
import io

from checks import c01, c02, c04
from simkit import nodes, refdec, workload as W
from simkit import terms as T

ID = "C06"
LEVEL = "exploration"
TECHNIQUE = ("deterministic simulation (fault-free pipeline): stratified seeded sampling of the serializer configuration lattice; oracle 'acknowledged => durable': call returned => all statements in the written bytes (reference decoder + pyjelly), flow empty")
LEVEL_NOTE = ('sampling of a finite lattice x inputs; visited lattice points reported')
OPTIMIZED_EVERY = 25      # every 25th run is executed in a child interpreter started with python -O
PBPY_EVERY = 50           # every 50th run (offset 6) is executed with protobuf's pure-Python backend
COMPILED_EVERY = 25       # every 25th run (offset 12) is executed in a child that imports a mypyc build of the tree
RUNS = {"quick": 80000, "thorough": 1500000}
RULE = ("stratified seeded sampling of the configuration lattice {TripleStream,QuadStream,GraphStream} x 8 logical "
        "types x delimited x frame_size x flow {inferred + 6 FrameFlow classes} x entry points of both integrations, "
        "non-empty inputs not aligned with frame boundaries; oracle: the call raises, or the written bytes decode "
        "(reference decoder and pyjelly) to the whole input and the stream's flow is empty; non-trivial = accepted "
        "configuration (no exception) with >=2 statements; distinct = distinct lattice points")
COMPONENTS = {"real": ["pyjelly Stream classes, FrameFlow classes, all serializer entry points of both integrations",
                       "pyjelly flat parser (second reader)"],
              "stub": ["reader: simkit.refdec", "output sink"]}
ASSUMPTIONS = ["a TripleStream fed quads is judged on the triples (graph names are not part of a triples stream)",
               "rdflib inputs compared as sets"]
PROBES = ["accepted", "raised", "nondelimited", "explicit_flow", "namespace_runs"]
SHRINK_LISTS = ["ops"]
EXTRA_COVERAGE = {"lattice_points_total": 3 * 8 * 2 * 7 * (5 + 6),
                  "lattice_note": "3 stream classes x 8 logical types x 2 delimited x 7 flows (inferred + 6 classes) x "
                                  "(5 generic + 6 rdflib entry-point variants) = 3696 points; distinct_nontrivial counts "
                                  "the points that were ACCEPTED (no exception) with >= 2 statements; the rest of the "
                                  "visited points raised (probe 'raised')"}

GENERIC_ENTRIES = ["frames_gen", "frames_gen", "frames_sink", "flat_file", "flat_frames", "grouped_file"]
RDFLIB_ENTRIES = ["graph_serialize", "graph_serialize", "frames_gen", "frames_sink", "flat_file", "grouped_file"]


def generate(rng, run, tier):
    integration = rng.choice(["generic", "generic", "rdflib"])
    physical = rng.choice(["TRIPLES", "QUADS", "GRAPHS"])
    logical = rng.choice(nodes.LOGICALS)
    delimited = rng.random() < 0.5
    flow = rng.choice([None, None, None] + list(nodes.FLOWS))
    entry = rng.choice(GENERIC_ENTRIES if integration == "generic" else RDFLIB_ENTRIES)
    stmts, flags, sizes, _ = c01.gen_workload(rng, physical, rdflib_safe=integration == "rdflib", max_n=12)
    mp, mn, md = c01.fit_tables(rng, stmts, [], sizes, physical)
    if md == 0 and W.has_datatypes(stmts):
        md = max(1, W.max_needs(stmts)[2])
    cfg = nodes.default_cfg(
        integration=integration, physical=physical, logical=logical, delimited=delimited,
        frame_size=rng.choice([1, 2, 3, 4, 7, 250]), max_names=max(mn, 16), max_prefixes=mp and max(mp, 8),
        max_datatypes=md and max(md, 4), generalized=flags["generalized"], rdf_star=flags["rdf_star"],
        entry=entry, flow=flow)
    if entry == "graph_serialize":
        cfg["pass_stream"] = rng.random() < 0.6
    if entry == "grouped_file":
        cfg["groups"] = c01.split_groups(rng, len(stmts))
        if rng.random() < 0.3:
            # an empty graph / sink among the inputs (first, in the middle or last): the input as a whole is non-empty
            cfg["groups"].insert(rng.randint(0, len(cfg["groups"])), 0)
    ops = [["stmt", *T.to_json(st)] for st in stmts]
    if rng.random() < 0.25:
        # namespace declarations travel through the same flow as the statements
        pools = W.Pools(rng, 3, 3, 1, rdflib_safe=integration == "rdflib")
        nss = W.gen_namespaces(rng, pools, rng.randint(1, 6), rdflib_safe=integration == "rdflib")
        need = W.max_needs(stmts, nss, prefix_enabled=cfg["max_prefixes"] > 0, graphs_type=physical == "GRAPHS")
        if cfg["max_prefixes"]:
            cfg["max_prefixes"] = max(cfg["max_prefixes"], need[0])
        cfg["max_names"] = max(cfg["max_names"], need[1])
        cfg["ns"] = True
        cfg["ns_all_groups"] = rng.random() < 0.5
        ops = [["ns", p, i] for p, i in nss] + ops
    return {"cfg": cfg, "ops": ops}


def effective_arity(cfg, stmts):
    """Arity of the stream class that the entry point ends up using (None = cannot tell)."""
    entry = cfg["entry"]
    if entry in ("frames_gen", "frames_sink") or (entry == "graph_serialize" and cfg.get("pass_stream")):
        return 3 if cfg["physical"] == "TRIPLES" else 4
    # guess_stream: TripleStream when the data are triples or the base logical type is GRAPHS
    is_triples = len(stmts[0]) == 3
    if cfg["integration"] == "rdflib" and entry in ("graph_serialize", "grouped_file"):
        is_triples = cfg["physical"] == "TRIPLES"      # container kind built by make_container
    if is_triples or cfg["logical"] % 10 == 3:
        return 3
    return 4


def execute(plan, sim):
    import warnings
    warnings.simplefilter("ignore")
    cfg = plan["cfg"]
    stmts, _ = nodes.split_ops(plan["ops"])
    point = (cfg["integration"], cfg["physical"], cfg["logical"], cfg["delimited"], cfg["flow"], cfg["entry"],
             bool(cfg.get("pass_stream")))
    if not cfg["delimited"]:
        sim.count("nondelimited")
    if cfg["flow"]:
        sim.count("explicit_flow")
    if cfg.get("ns"):
        sim.count("namespace_runs")
    box = []
    try:
        data = nodes.serialize(cfg, plan["ops"], sim, stream_box=box)
    except Exception as e:  # noqa: BLE001
        sim.count("raised")
        return [], None
    sim.count("accepted")
    key = point if len(stmts) >= 2 else None
    sig = {"delimited": cfg["delimited"], "explicit_flow": bool(cfg["flow"]),
           "flat_logical": cfg["logical"] in (1, 2)}
    arity = effective_arity(cfg, stmts)
    proj = [st[:arity] if len(st) >= arity else st for st in stmts]
    if cfg["integration"] == "generic":
        exp = [T.norm_stmt(st) for st in proj]
    else:
        exp = c02.expected_set(proj)
    left = len(box[0].flow) if box else 0
    if left:
        return [{"clause": "C06.rows_left_in_flow", "sig": sig,
                 "msg": f"{left} rows still buffered in stream.flow after the call returned; {len(data)} bytes written"}], key
    if not data:
        return [{"clause": "C06.nothing_written", "sig": sig,
                 "msg": f"call returned normally, 0 bytes written for {len(stmts)} statements"}], key
    r = refdec.decode_stream(data, nodes.wrote_delimited(cfg), strict=False)
    if not r.ok:
        return [{"clause": "C06.undecodable", "sig": {**sig, "cls": r.error["cls"]},
                 "msg": f"written bytes are not a valid stream: {r.error}"}], key
    got = [tuple(T.norm(t) for t in st) for st in r.statements()]
    if isinstance(exp, set):
        ok = set(got) == exp
    else:
        ok = got == exp
        if not ok and arity == 3 and cfg["physical"] != "TRIPLES":
            ok = False
    if not ok:
        n_exp = len(exp)
        return [{"clause": "C06.statements_missing", "sig": sig,
                 "msg": f"{n_exp} statements submitted, written bytes decode to {len(got)}: "
                        f"first difference {c01.first_diff(list(exp) if not isinstance(exp, set) else sorted(exp, key=repr), got if not isinstance(exp, set) else sorted(set(got), key=repr))}"}], key
    # second reader: pyjelly itself
    try:
        items = list(nodes.parse_flat(cfg["integration"], io.BytesIO(data)))
    except Exception as e:  # noqa: BLE001
        return [{"clause": "C06.unparsable_by_pyjelly", "sig": {**sig, "exc": type(e).__name__},
                 "msg": f"pyjelly cannot read back what it wrote: {type(e).__name__}: {e}"}], key
    items = [i for i in items if i[0] != "ns"]
    if isinstance(exp, set):
        ok = set(items) == exp
    else:
        ok = items == exp
    if not ok:
        return [{"clause": "C06.pyjelly_reads_other_data", "sig": sig,
                 "msg": f"pyjelly reads back {len(items)} statements, {len(exp)} submitted"}], key
    return [], key
