"""C10 - a truncated stream yields only a correct prefix of the data (every cut offset)."""
from __future__ import annotations

import copy
import io

from checks import c01, c04
from simkit import nodes, refdec, wire
from simkit import terms as T
from simkit.kernel import Deadlock, HarnessError
from simkit.pipe import Pipe, open_frontend

ID = "C10"
LEVEL = "fault_enumeration"
TECHNIQUE = ('deterministic simulation with crash-point enumeration: every byte offset of each seeded stream as cut (EOF) or connection reset, five source front ends, flat and grouped parsers; oracle = correct prefix, no delivered frame lost')
LEVEL_NOTE = ('streams sampled by seed, crash points enumerated per stream (all offsets up to 800 / 3000 bytes)')
OPTIMIZED_EVERY = 25      # every 25th run is executed in a child interpreter started with python -O
PBPY_EVERY = 50           # every 50th run (offset 6) is executed with protobuf's pure-Python backend
COMPILED_EVERY = 25       # every 25th run (offset 12) is executed in a child that imports a mypyc build of the tree
RUNS = {"quick": 1600, "thorough": 20000}
CHUNK = 5
RULE = ("for each seeded delimited stream (real writer / reference encoder) EVERY byte offset 0..len is used as a "
        "crash point when len<=800 (otherwise all frame/varint boundary offsets +-2 plus a tape-chosen sample), "
        "delivered as EOF or connection reset through BytesIO / raw / buffered sources to the flat and grouped "
        "parsers; evaluations = (stream, offset) pairs parsed; non-trivial = cut strictly inside the stream with "
        ">=1 complete frame before it; distinct = distinct (stream, offset, source, fault) tuples")
COMPONENTS = {"real": ["pyjelly flat and grouped parsers of both integrations", "protobuf parse_length_prefixed",
                       "io.BufferedReader"],
              "stub": ["byte source with cut(k)/reset(k) faults", "writer in half of the runs: simkit.refenc",
                       "oracle: simkit.refdec reading of the uncut stream"]}
ASSUMPTIONS = ["streams are sampled by seed; crash points are enumerated per stream",
               "whether the parser ends cleanly or raises after the prefix is not judged"]
EXHAUSTIVE_NOTE = "per stream: all offsets 0..len when len <= 800"
PROBES = ["cut_in_varint", "cut_in_frame_body", "cut_on_boundary", "cut_lt3", "fault_reset", "fault_cut",
          "all_offsets_streams", "sampled_offsets_streams", "grouped_runs"]
SHRINK_LISTS = ["ops", "items"]


def generate(rng, run, tier):
    if rng.random() < 0.5:
        plan = c01.gen_plan(rng, run, tier)
        plan["source"] = "real"
        plan["integration"] = "generic"
        plan["cfg"]["delimited"] = True
        if plan["cfg"]["entry"] == "flat_frames":
            plan["cfg"]["entry"] = "frames_gen"
        plan["cfg"]["frame_size"] = rng.choice([1, 2, 3, 5, 8])
        if plan["cfg"]["logical"] not in (1, 2):
            plan["cfg"]["logical"] = 1 if plan["cfg"]["physical"] == "TRIPLES" else 2
        plan["ops"] = plan["ops"][:rng.choice([3, 6, 12, 40])]
    else:
        integration = rng.choice(["generic", "generic", "rdflib"])
        plan = c04.gen_stream_plan(rng, integration == "rdflib")
        plan["source"] = "model"
        plan["integration"] = integration
        plan["delimited"] = True
        plan["items"] = plan["items"][:rng.choice([3, 6, 12, 40])]
        plan["knobs"]["frame_rows"] = rng.choice([1, 2, 3, 5, 8])
    plan.pop("interleave", None)
    plan["consumer"] = rng.choice(["flat", "flat", "grouped"])
    plan["all_offsets_up_to"] = 800 if tier == "quick" else 3000
    plan["frontend"] = rng.choice(["bytesio", "raw", "buffered", "duck", "rwpair", "greedy", "strict"])
    plan["fault"] = "cut" if plan["frontend"] == "bytesio" else rng.choice(["cut", "reset"])
    return plan


def simplify(plan):
    for key, val in (("consumer", "flat"), ("frontend", "bytesio"), ("fault", "cut")):
        if plan.get(key) != val:
            p = copy.deepcopy(plan)
            p[key] = val
            if key == "frontend":
                p["fault"] = "cut"
            yield p


WORK_BUDGET = 2_000_000     # bytes re-read per run, summed over its crash points


def offsets_for(data, bounds, sim, limit=800):
    n = len(data)
    if n <= limit:
        sim.count("all_offsets_streams")
        return list(range(n + 1))
    sim.count("sampled_offsets_streams")
    s = set()
    for start, end, _ in bounds:
        for d in (-2, -1, 0, 1, 2, 3):
            for b in (start, end):
                if 0 <= b + d <= n:
                    s.add(b + d)
    for _ in range(200):
        s.add(sim.choose(n + 1, "offset"))
    offs = sorted(s)
    # every cut at offset k re-reads k bytes, in the worst schedule one byte per read: keep one run's work bounded
    # (a 20 KB stream of 100 frames would otherwise cost 15 M read events) by thinning the offsets evenly
    total = sum(offs)
    if total > WORK_BUDGET:
        step = -(-total // WORK_BUDGET)
        offs = sorted(set(offs[::step]) | {0, n})
        sim.count("offsets_thinned_streams")
    return offs


def parse_cut(plan, sim, data, k):
    """Parse the stream cut at offset k. Returns (items_or_sinks, exception|None)."""
    fe = plan["frontend"]
    integration = plan["integration"]
    if fe == "bytesio":
        fobj = io.BytesIO(data[:k])
    else:
        pipe = Pipe(sim, data)
        if plan["fault"] == "reset":
            pipe.reset_at = k
        else:
            pipe.cut_at = k
        pipe.read_cap = 4 * len(data) + 64
        fobj, _ = open_frontend(fe, sim, pipe=pipe, policy="safe")
    out = []
    try:
        if plan["consumer"] == "flat":
            for it in nodes.parse_flat(integration, fobj):
                out.append(it)
        else:
            for sink in nodes.parse_grouped(integration, fobj):
                out.append(sink)
    except Deadlock:
        raise
    except Exception as e:  # noqa: BLE001
        return out, e
    return out, None


def execute(plan, sim):
    import warnings
    warnings.simplefilter("ignore")
    if plan["source"] == "real":
        data = nodes.serialize_input(plan["cfg"], plan["ops"], None)
    else:
        data, _, _, _ = c04.build_stream(plan, sim)
    bounds = wire.split_delimited(data)
    ref = refdec.decode_stream(data, True, strict=False)
    if not ref.ok:
        raise HarnessError(f"uncut stream invalid: {ref.error}")
    integration = plan["integration"]
    exp_frames = [[c04.conv_expected(integration, i) for i in fi] for fi in ref.frames_items]
    exp_flat = [i for fi in exp_frames for i in fi]
    grouped = plan["consumer"] == "grouped"
    ordered = integration == "generic"
    if grouped:
        sim.count("grouped_runs")
    sim.count("fault_" + plan["fault"])
    v = []
    nontrivial = 0
    varint_offsets = set()
    for start, end, fb in bounds:
        hdr = end - len(fb) - start
        for j in range(1, hdr):
            varint_offsets.add(start + j)
    ends = [end for _, end, _ in bounds]
    sim.cap = max(sim.cap, 12_000_000)      # the event cap is a backstop against runaway runs, not a work limit
    for k in offsets_for(data, bounds, sim, plan.get("all_offsets_up_to", 800)):
        sim.count("evaluations")
        if k < 3:
            sim.count("cut_lt3")
        if k in varint_offsets:
            sim.count("cut_in_varint")
        elif k in ends:
            sim.count("cut_on_boundary")
        else:
            sim.count("cut_in_frame_body")
        complete = sum(1 for e in ends if e <= k)
        if 0 < k < len(data) and complete >= 1:
            nontrivial += 1
        if plan["fault"] == "reset" or plan["frontend"] != "bytesio":
            sim.fault(plan["fault"])
        else:
            sim.fault("cut")
        try:
            out, err = parse_cut(plan, sim, data, k)
        except Deadlock as e:
            v.append({"clause": "C10.no_termination", "sig": {"consumer": plan["consumer"]},
                      "msg": f"cut at {k}: parser did not terminate within the read cap: {e}"})
            break
        if grouped:
            got_st = [s for sts, _ in out for s in sts]
            # each yielded sink must be the corresponding frame
            bad = None
            for j, (sts, nss) in enumerate(out):
                if j >= len(exp_frames):
                    bad = (j, "extra sink")
                    break
                e_st = [i for i in exp_frames[j] if i[0] != "ns"]
                same = (sts == e_st) if ordered else (set(sts) == set(e_st))
                if not same and j < len(out) - 1:
                    bad = (j, f"sink differs: expected {e_st!r} got {sts!r}")
                    break
                if not same and not prefix_ok(sts, e_st, ordered):
                    bad = (j, f"last sink is not a prefix of its frame: expected {e_st!r} got {sts!r}")
                    break
            if bad:
                v.append({"clause": "C10.not_a_prefix", "sig": {"consumer": "grouped", "fault": plan["fault"]},
                          "msg": f"cut at {k}/{len(data)}: sink {bad[0]}: {bad[1]}"})
                break
            need_l = [i for j in range(complete) for i in exp_frames[j] if i[0] != "ns"]
            need = len(need_l) if ordered else len(set(need_l))
            have = len(got_st) if ordered else len(set(got_st) & set(need_l))
            if have < need:
                v.append({"clause": "C10.lost_delivered_frame", "sig": {"consumer": "grouped", "fault": plan["fault"]},
                          "msg": f"cut at {k}/{len(data)}: {complete} frames fully delivered hold {need} statements, "
                                 f"only {len(got_st)} yielded before {type(err).__name__ if err else 'end'}"})
                break
            continue
        if out != exp_flat[:len(out)]:
            d = c01.first_diff(exp_flat, out)
            v.append({"clause": "C10.not_a_prefix", "sig": {"consumer": "flat", "fault": plan["fault"]},
                      "msg": f"cut at {k}/{len(data)}: item {d[0]}: expected {d[1]!r} got {d[2]!r}"})
            break
        need = sum(len(exp_frames[j]) for j in range(complete))
        if len(out) < need:
            v.append({"clause": "C10.lost_delivered_frame", "sig": {"consumer": "flat", "fault": plan["fault"]},
                      "msg": f"cut at {k}/{len(data)}: {complete} frames fully delivered hold {need} items, only "
                             f"{len(out)} yielded before {type(err).__name__ if err else 'end'}: {err}"})
            break
    key = (data, plan["frontend"], plan["fault"], plan["consumer"]) if nontrivial else None
    if key is not None:
        sim.count("nontrivial_offsets", nontrivial)
    return v, key


def prefix_ok(got, exp, ordered):
    if ordered:
        return got == exp[:len(got)]
    return set(got) <= set(exp)
