"""C19 - compression contract: send each string once, elide repeats, use deltas."""
from __future__ import annotations

import copy

from checks import c01, c02, c03
from simkit import nodes, refdec, refenc, wire, workload as W
from simkit import terms as T
from simkit.kernel import HarnessError, Sim

ID = "C19"
LEVEL = "exploration"
TECHNIQUE = ('deterministic simulation, history check by the reference model: row-level audit trace of every emitted stream (redundant entries, missed elisions, missed zero forms, graph starts vs runs, size vs naive baseline)')
LEVEL_NOTE = ('sampled inputs x presets; audit by the independent decoder')
OPTIMIZED_EVERY = 25      # every 25th run is executed in a child interpreter started with python -O
PBPY_EVERY = 50           # every 50th run (offset 6) is executed with protobuf's pure-Python backend
COMPILED_EVERY = 25       # every 25th run (offset 12) is executed in a child that imports a mypyc build of the tree
RUNS = {"quick": 50000, "thorough": 1000000}
RULE = ("row-level audit by the reference decoder of every stream the real writers emit in seeded runs (both "
        "integrations, three physical types, tables from 'constant eviction' to 'never evict'): redundant entry rows, "
        "missed elisions, explicit ids where zero was equivalent, graph_start rows vs maximal runs of equal graph "
        "names, total row bytes vs the reference encoder's naive one-entry-per-use encoding; non-trivial = >=2 "
        "statements with >=1 repeated term or lookup hit; distinct = distinct (config, statements)")
COMPONENTS = {"real": ["pyjelly serializers of both integrations, TermEncoder, LookupEncoder, split_to_graphs"],
              "stub": ["reader and auditor: simkit.refdec", "baseline writer: simkit.refenc in naive mode"]}
ASSUMPTIONS = ["literals differing only in plain vs explicit xsd:string are not generated (one RDF term, two Python "
               "values: whether eliding them is owed is arguable)"]
PROBES = ["str_subclass_spellings", "repeated_terms_used", "zero_entry_ids", "zero_prefix_ids", "zero_name_ids", "evictions", "no_evictions",
          "graphs_from_sequence", "rdflib_streams", "generic_streams", "naive_compared"]
SHRINK_LISTS = ["ops"]


def drop_xsd_string(t):
    if t[0] == "lit" and t[3] == T.XSD_STRING:
        return ("lit", t[1], t[2], None)
    if t[0] == "triple":
        return ("triple", drop_xsd_string(t[1]), drop_xsd_string(t[2]), drop_xsd_string(t[3]))
    return t


def generate(rng, run, tier):
    plan = c03.generate(rng, run, tier)
    while plan.get("kind") == "direct_graphs":      # (interrupted graphs: C03's own subject, nothing to audit here)
        plan = c03.generate(rng, run, tier)
    keep_xsd = plan["cfg"]["integration"] == "generic" and rng.random() < 0.1
    plan["keep_xsd_string"] = keep_xsd
    if plan["cfg"]["integration"] == "generic" and rng.random() < 0.12:
        # every second occurrence of an IRI / datatype / language tag / blank-node label arrives as a str
        # subclass of the same text that compares and hashes like rdflib.URIRef does
        plan["cfg"]["odd_str"] = True
    ops = []
    for o in plan["ops"]:
        if o[0] == "stmt" and not keep_xsd:
            ops.append(["stmt", *T.to_json(tuple(drop_xsd_string(T.from_json(t)) for t in o[1:]))])
        else:
            ops.append(o)
    if keep_xsd:
        # the two spellings of one literal in the same slot of consecutive statements
        for i, o in enumerate(list(ops)):
            if o[0] == "stmt":
                for j in range(1, len(o)):
                    t = o[j]
                    if t[0] == "lit" and not t[2] and not t[3]:
                        twin = list(o)
                        twin[j] = ["lit", t[1], None, T.XSD_STRING]
                        ops.insert(i + 1, twin)
                        break
                else:
                    continue
                break
    plan["ops"] = ops
    if rng.random() < 0.3:
        # tables large enough for all distinct strings: each string must be sent exactly once
        plan["cfg"]["max_names"] = 4000
        plan["cfg"]["max_prefixes"] = 150 if plan["cfg"]["max_prefixes"] else 0
        plan["cfg"]["max_datatypes"] = 32 if plan["cfg"]["max_datatypes"] else 0
    return plan


def row_bytes(data, delimited):
    return sum(len(wire.f_bytes(1, r)) for f in wire.read_stream(data, delimited) for r in f.rows)


def runs_of_graphs(stmts):
    n = 0
    prev = object()
    for st in stmts:
        if st[3] != prev:
            n += 1
            prev = st[3]
    return n


def execute(plan, sim):
    cfg = plan["cfg"]
    stmts, nss = nodes.split_ops(plan["ops"])
    sim.count(cfg["integration"] + "_streams")
    if cfg.get("odd_str"):
        sim.count("str_subclass_spellings")
    try:
        if plan.get("kind") == "grouped":
            from checks import c07
            data = c07.write_grouped(cfg, stmts, cfg["groups"], nss)
        elif plan.get("kind") == "direct":
            data, _, written = c03.write_direct(cfg, plan["ops"], sim)
            stmts = [stmts[i] for i in written]
        else:
            data = nodes.serialize(cfg, plan["ops"], sim)
    except Exception as e:  # noqa: BLE001
        return [{"clause": "C19.serialize_raised", "sig": {"exc": type(e).__name__}, "msg": f"{type(e).__name__}: {e}"}], None
    delimited = True if plan.get("kind") in ("grouped", "direct") else nodes.wrote_delimited(cfg)
    r = refdec.decode_stream(data, delimited, strict=True)
    if not r.ok:
        return [{"clause": "C19.invalid_stream", "sig": {"cls": r.error["cls"]}, "msg": str(r.error)}], None
    a = r.audit
    if sum(a["repeated_terms"]):
        sim.count("repeated_terms_used")
    for k in ("zero_entry_ids", "zero_prefix_ids", "zero_name_ids"):
        if a[k]:
            sim.count(k)
    sim.count("evictions" if sum(a["evictions"]) else "no_evictions")
    v = []
    integ = {"integration": cfg["integration"]}
    tables = ["name", "prefix", "datatype"]
    if a["redundant_entry"]:
        ti, f, ri, val = a["redundant_entry"][0]
        v.append({"clause": "C19.redundant_entry", "sig": {**integ, "table": tables[ti]},
                  "msg": f"{len(a['redundant_entry'])} entry rows re-send a string that is resident in the table, first: "
                         f"{tables[ti]} entry {val!r} at frame {f} row {ri}"})
    if a["missed_elision"]:
        slot, f, ri = a["missed_elision"][0]
        # attribution from the workload: are the two adjacent input terms the plain / explicit-xsd:string
        # spellings of one literal (one RDF term, two Python values)?
        xsd_pair = False
        stmt_pos = [pos for item, pos in zip(r.items, r.item_pos) if item[0] != "ns"]
        if plan.get("keep_xsd_string") and (f, ri) in stmt_pos:
            i = stmt_pos.index((f, ri))
            if 0 < i < len(stmts) and slot < len(stmts[i]):
                t0, t1 = stmts[i - 1][slot], stmts[i][slot]
                xsd_pair = t0 != t1 and T.norm(t0) == T.norm(t1)
        v.append({"clause": "C19.missed_elision", "sig": {**integ, "slot": slot, "plain_vs_xsd_string": xsd_pair},
                  "msg": f"{len(a['missed_elision'])} explicit terms equal the previous statement's term in the same "
                         f"slot, first: slot {slot} at frame {f} row {ri}"})
    for key, what in (("explicit_entry_id", "entry id"), ("explicit_prefix_id", "prefix id"),
                      ("explicit_name_id", "name id")):
        if a[key]:
            v.append({"clause": "C19.missed_zero_form", "sig": {**integ, "field": what},
                      "msg": f"{len(a[key])} explicit {what}s where the delta rule makes 0 equivalent, first at "
                             f"{a[key][0]}"})
    grouped = plan.get("kind") == "grouped"     # several containers: not one statement sequence
    if cfg["physical"] == "GRAPHS" and cfg["integration"] == "generic" and stmts and len(stmts[0]) == 4 and not grouped:
        sim.count("graphs_from_sequence")
        want = runs_of_graphs(stmts)
        if a["graph_starts"] != want:
            v.append({"clause": "C19.graph_starts", "sig": integ,
                      "msg": f"{want} maximal runs of equal graph names, {a['graph_starts']} graph_start rows"})
    if cfg["physical"] == "GRAPHS" and cfg["integration"] == "rdflib" and cfg["entry"] == "frames_gen" and stmts \
            and len(stmts[0]) == 4:
        # the rdflib integration regroups a quad sequence by graph before writing: still, consecutive quads with
        # equal graph names must travel under a single graph start, i.e. no graph may be started more often than
        # it has runs in the input sequence (the always-present default graph may add one start)
        sim.count("graphs_from_sequence")
        runs = {}
        prev = object()
        for st in stmts:
            g = T.from_rdflib(T.to_rdflib(st[3]), graph_slot=True)
            if g != prev:
                runs[g] = runs.get(g, 0) + 1
                prev = g
        starts = {}
        for g in a["graph_start_terms"]:
            starts[g] = starts.get(g, 0) + 1
        for g, n in starts.items():
            allowed = runs.get(g, 0) + (1 if g == T.DEFAULT and g not in runs else 0)
            if n > allowed:
                v.append({"clause": "C19.graph_starts", "sig": integ,
                          "msg": f"graph {g!r} has {runs.get(g, 0)} runs of consecutive quads in the input but "
                                 f"{n} graph_start rows"})
                break
    # size bound against the naive encoding of what the stream denotes, with the same options
    empty_graphs = cfg["physical"] == "GRAPHS" and a["graph_starts"] != runs_of_graphs(r.statements())
    if empty_graphs:
        # rdflib Datasets always carry a (possibly empty) default graph; an empty graph denotes no statement and
        # cannot be part of the naive baseline, which is built from the denoted statements
        sim.count("streams_with_empty_graphs")
    if not v and not empty_graphs:
        items = [("ns", i[1], i[2][1]) if i[0] == "ns" else i for i in r.items]
        try:
            nrows, _, _ = refenc.encode_rows(items, r.options, Sim(tape=[]), {"naive": True})
            naive = sum(len(wire.f_bytes(1, x)) for x in nrows)
            real = row_bytes(data, delimited)
            sim.count("naive_compared")
            if real > naive:
                v.append({"clause": "C19.larger_than_naive", "sig": integ,
                          "msg": f"rows take {real} bytes, the naive one-entry-per-use encoding {naive}"})
        except HarnessError:
            pass
    nontrivial = len(stmts) >= 2 and (sum(a["repeated_terms"]) or sum(a["entries"]) < 3 * len(stmts))
    key = (repr(sorted(cfg.items(), key=str)), repr(stmts)) if nontrivial else None
    return v, key
